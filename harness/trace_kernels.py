"""Regenerates coq/Gen/K_*.v from /repo's current source (Tie A) and validates the translator:
 (1) tracer: the recorded DAG, evaluated with Python floats, reproduces the real function bit for bit
     on random inputs (same operations in the same order);
 (2) printer: the emitted Gallina, evaluated inside Coq over Q with oracle tables for sqrt/cos/...,
     equals the DAG evaluated in Python over Fractions with the same tables (exact equality)."""
import math
import os
import random
from fractions import Fraction

import trace as T
import common

GEN = os.path.join(common.COQ, 'Gen')


class Dummy:
    debug = False
    verbose = False


def mk_cell(a, b, c, al, be, ga):
    from shelxfile.shelx.cards import CELL
    cell = CELL.__new__(CELL)
    cell._parse_line = lambda spline, intnums=False: ([0.71073, a, b, c, al, be, ga], [])
    CELL.__init__(cell, Dummy(), ['CELL'])
    return cell


class FakeAtom:
    def __init__(self, xyz):
        self.cart_coords = tuple(xyz)


def mk_atom(cell, uvals):
    from shelxfile.atoms.atom import Atom
    at = Atom.__new__(Atom)
    at._cell = cell
    at.uvals = list(uvals)
    return at


# ---- kernel functions: fn(tracer, *symbols) -> nested result ------------------------------------

def k_ortho_m(tr, a, b, c, al, be, ga):
    from shelxfile.misc.dsrmath import OrthogonalMatrix
    return OrthogonalMatrix(a, b, c, al, be, ga).m

def k_ortho_inv(tr, a, b, c, al, be, ga):
    from shelxfile.misc.dsrmath import OrthogonalMatrix
    return OrthogonalMatrix(a, b, c, al, be, ga).inversed

def k_ortho_metric(tr, a, b, c, al, be, ga):
    from shelxfile.misc.dsrmath import OrthogonalMatrix
    return OrthogonalMatrix(a, b, c, al, be, ga).metric_matrix

def k_ortho_V(tr, a, b, c, al, be, ga):
    from shelxfile.misc.dsrmath import OrthogonalMatrix
    return OrthogonalMatrix(a, b, c, al, be, ga).V

def k_vol_unitcell(tr, a, b, c, al, be, ga):
    from shelxfile.misc.dsrmath import vol_unitcell
    return vol_unitcell(a, b, c, al, be, ga)

def k_cell_volume(tr, a, b, c, al, be, ga):
    return mk_cell(a, b, c, al, be, ga).volume

def k_cell_recip(tr, a, b, c, al, be, ga):
    cell = mk_cell(a, b, c, al, be, ga)
    return [cell.astar, cell.bstar, cell.cstar]

def k_cell_o_apply(tr, x, y, z, a, b, c, al, be, ga):
    # Atom.parse_line: self._cell.o * Array(self.frac_coords)
    from shelxfile.misc.dsrmath import Array
    cell = mk_cell(a, b, c, al, be, ga)
    return cell.o * Array([x, y, z])

def k_f2c(tr, x, y, z, a, b, c, al, be, ga):
    from shelxfile.misc.misc import frac_to_cart
    return frac_to_cart([x, y, z], [a, b, c, al, be, ga])

def k_c2f(tr, x, y, z, a, b, c, al, be, ga):
    from shelxfile.misc.misc import cart_to_frac
    return cart_to_frac([x, y, z], [a, b, c, al, be, ga])

def k_det(tr, m1, m2, m3, m4, m5, m6, m7, m8, m9):
    from shelxfile.misc.dsrmath import Matrix
    return Matrix([[m1, m2, m3], [m4, m5, m6], [m7, m8, m9]]).det

def k_inv(tr, m1, m2, m3, m4, m5, m6, m7, m8, m9):
    from shelxfile.misc.dsrmath import Matrix
    return Matrix([[m1, m2, m3], [m4, m5, m6], [m7, m8, m9]]).inversed

def k_matmul(tr, *m):
    from shelxfile.misc.dsrmath import Matrix
    A = Matrix([list(m[0:3]), list(m[3:6]), list(m[6:9])])
    B = Matrix([list(m[9:12]), list(m[12:15]), list(m[15:18])])
    return A * B

def k_matdot(tr, *m):
    from shelxfile.misc.dsrmath import Matrix
    A = Matrix([list(m[0:3]), list(m[3:6]), list(m[6:9])])
    B = Matrix([list(m[9:12]), list(m[12:15]), list(m[15:18])])
    return A.dot(B)

def k_dist_cell(tr, x1, y1, z1, x2, y2, z2, a, b, c, al, be, ga):
    from shelxfile.misc.dsrmath import atomic_distance
    return atomic_distance([x1, y1, z1], [x2, y2, z2], [a, b, c, al, be, ga])

def k_dist_cart(tr, x1, y1, z1, x2, y2, z2):
    from shelxfile.misc.dsrmath import atomic_distance
    return atomic_distance([x1, y1, z1], [x2, y2, z2])

def k_ustar(tr, u11, u22, u33, u23, u13, u12, a, b, c, al, be, ga):
    return mk_atom(mk_cell(a, b, c, al, be, ga), [u11, u22, u33, u23, u13, u12]).ustar

def k_ucart(tr, u11, u22, u33, u23, u13, u12, a, b, c, al, be, ga):
    return mk_atom(mk_cell(a, b, c, al, be, ga), [u11, u22, u33, u23, u13, u12]).u_cart

def k_ueq(tr, u11, u22, u33, u23, u13, u12, a, b, c, al, be, ga):
    return mk_atom(mk_cell(a, b, c, al, be, ga), [u11, u22, u33, u23, u13, u12]).ueq

def k_npd(tr, u11, u22, u33, u23, u13, u12, a, b, c, al, be, ga):
    # Atom.is_npd() as a number: 1 = reported non-positive-definite, 0 = not
    return 1 if mk_atom(mk_cell(a, b, c, al, be, ga), [u11, u22, u33, u23, u13, u12]).is_npd() else 0

def k_vector_length(tr, x, y, z, a, b, c, al, be, ga):
    from shelxfile.shelx.sdm import SDM
    class S: pass
    shx = S()
    shx.cell = mk_cell(a, b, c, al, be, ga)
    shx.atoms = S(); shx.atoms.all_atoms = []
    sdm = SDM.__new__(SDM)
    SDM.__init__(sdm, shx)
    return sdm.vector_length(x, y, z)

def k_angle(tr, *p):
    from shelxfile.atoms.atoms import Atoms
    ats = Atoms.__new__(Atoms)
    return ats.angle(FakeAtom(p[0:3]), FakeAtom(p[3:6]), FakeAtom(p[6:9]))

def k_torsion(tr, *p):
    from shelxfile.atoms.atoms import Atoms
    ats = Atoms.__new__(Atoms)
    return ats.torsion_angle(FakeAtom(p[0:3]), FakeAtom(p[3:6]), FakeAtom(p[6:9]), FakeAtom(p[9:12]))

def k_cross(tr, a1, a2, a3, b1, b2, b3):
    from shelxfile.misc.dsrmath import Array
    return Array([a1, a2, a3]).cross(Array([b1, b2, b3]))

def k_q2mat(tr, q0, q1, q2, q3):
    from shelxfile.fit.quatfit import q2mat
    return q2mat([q0, q1, q2, q3])

def k_rotmol1(tr, x, y, z, *u):
    from shelxfile.fit.quatfit import rotmol
    return rotmol([[x, y, z]], [list(u[0:3]), list(u[3:6]), list(u[6:9])])[0]

def mk_form(n):
    def k(tr, *p):
        import shelxfile.fit.quatfit as qf
        src = [list(p[6 * i:6 * i + 3]) for i in range(n)]
        tgt = [list(p[6 * i + 3:6 * i + 6]) for i in range(n)]
        got = {}
        saved = qf.jacobi
        def fake(matrix, maxsweeps):
            got['m'] = [list(r) for r in matrix]
            raise StopIteration
        qf.jacobi = fake
        try:
            qf.qtrfit(src, tgt, 30)
        except StopIteration:
            pass
        finally:
            qf.jacobi = saved
        m = got['m']
        return [m[0][0], m[0][1], m[0][2], m[0][3], m[1][1], m[1][2], m[1][3], m[2][2], m[2][3], m[3][3]]
    return k

def mk_centroid(n):
    def k(tr, *p):
        from shelxfile.fit.quatfit import centroid
        return centroid([list(p[3 * i:3 * i + 3]) for i in range(n)])
    return k

def mk_rmsd(n):
    def k(tr, *p):
        from shelxfile.fit.quatfit import rmsd
        return rmsd([list(p[6 * i:6 * i + 3]) for i in range(n)], [list(p[6 * i + 3:6 * i + 6]) for i in range(n)])
    return k

def k_minus_vect(tr, x, y, z, vx, vy, vz):
    from shelxfile.fit.quatfit import matrix_minus_vect
    return matrix_minus_vect([[x, y, z]], (vx, vy, vz))[0]

def k_plus_vect(tr, x, y, z, vx, vy, vz):
    from shelxfile.fit.quatfit import matrix_plus_vect
    return matrix_plus_vect([[x, y, z]], (vx, vy, vz))[0]


CELLV = ['a', 'b', 'c', 'al', 'be', 'ga']
M9 = ['m1', 'm2', 'm3', 'm4', 'm5', 'm6', 'm7', 'm8', 'm9']
U6 = ['u11', 'u22', 'u33', 'u23', 'u13', 'u12']

def pts(prefix, n):
    return [prefix + '%d%s' % (i, c) for i in range(n) for c in 'xyz']

def pairs(n):
    out = []
    for i in range(n):
        out += ['s%d%s' % (i, c) for c in 'xyz'] + ['t%d%s' % (i, c) for c in 'xyz']
    return out

# file -> [(name, fn, argnames, kind)]   kind: 'cell' 'gen' 'u' decides the random input generator
KERNELS = {
    'K_cell': [
        ('ortho_m', k_ortho_m, CELLV), ('ortho_inv', k_ortho_inv, CELLV), ('ortho_metric', k_ortho_metric, CELLV),
        ('ortho_V', k_ortho_V, CELLV), ('vol_unitcell', k_vol_unitcell, CELLV), ('cell_volume', k_cell_volume, CELLV),
        ('cell_recip', k_cell_recip, CELLV), ('cell_o_apply', k_cell_o_apply, ['x', 'y', 'z'] + CELLV),
        ('f2c', k_f2c, ['x', 'y', 'z'] + CELLV), ('c2f', k_c2f, ['x', 'y', 'z'] + CELLV),
        ('det', k_det, M9), ('inv', k_inv, M9),
        ('matmul', k_matmul, ['a%d' % i for i in range(9)] + ['b%d' % i for i in range(9)]),
        ('matdot', k_matdot, ['a%d' % i for i in range(9)] + ['b%d' % i for i in range(9)]),
        ('dist_cell', k_dist_cell, ['x1', 'y1', 'z1', 'x2', 'y2', 'z2'] + CELLV),
        ('dist_cart', k_dist_cart, ['x1', 'y1', 'z1', 'x2', 'y2', 'z2']),
        ('vector_length', k_vector_length, ['x', 'y', 'z'] + CELLV),
    ],
    'K_adp': [
        ('ustar', k_ustar, U6 + CELLV), ('ucart', k_ucart, U6 + CELLV), ('ueq', k_ueq, U6 + CELLV),
        ('npd', k_npd, U6 + CELLV),
    ],
    'K_geom': [
        ('angle', k_angle, pts('p', 3)), ('torsion', k_torsion, pts('p', 4)),
        ('cross', k_cross, ['a1', 'a2', 'a3', 'b1', 'b2', 'b3']),
    ],
    'K_quat': [
        ('q2mat', k_q2mat, ['q0', 'q1', 'q2', 'q3']),
        ('rotmol1', k_rotmol1, ['x', 'y', 'z'] + ['u%d' % i for i in range(9)]),
        ('form1', mk_form(1), pairs(1)), ('form2', mk_form(2), pairs(2)), ('form3', mk_form(3), pairs(3)),
        ('centroid1', mk_centroid(1), pts('p', 1)), ('centroid2', mk_centroid(2), pts('p', 2)), ('centroid3', mk_centroid(3), pts('p', 3)),
        ('rmsd1', mk_rmsd(1), pairs(1)), ('rmsd2', mk_rmsd(2), pairs(2)),
        ('minus_vect', k_minus_vect, ['x', 'y', 'z', 'vx', 'vy', 'vz']),
        ('plus_vect', k_plus_vect, ['x', 'y', 'z', 'vx', 'vy', 'vz']),
    ],
}


def rand_env(rng, argnames):
    env = {}
    for n in argnames:
        if n in ('a', 'b', 'c') and set(CELLV) <= set(argnames):
            env[n] = round(rng.uniform(4, 30), 4)
        elif n in ('al', 'be', 'ga'):
            env[n] = round(rng.uniform(70, 115), 3)
        elif n.startswith('u') and n[1:].isdigit() and len(n) == 3:
            env[n] = round(rng.uniform(0.01, 0.08), 5) if n in ('u11', 'u22', 'u33') else round(rng.uniform(-0.01, 0.01), 5)
        elif n.startswith('q') and len(n) == 2:
            env[n] = round(rng.uniform(-1, 1), 4)
        else:
            env[n] = round(rng.uniform(-3, 3), 4)
    return env


def env_npd(rng, env):
    # reach every branch of is_npd: first non-zero value at each position, isotropic atoms in the three ranges, non-positive-definite tensors
    r = rng.random()
    if r < 0.35:
        k = rng.randint(0, 5)
        for n in ['u22', 'u33', 'u23', 'u13', 'u12'][:k]:
            env[n] = 0.0
        if k == 5:
            env['u11'] = rng.choice([0.05, -0.3, -1.2, 0.0, -0.5])
    elif r < 0.6:
        for n in ('u23', 'u13', 'u12'):
            env[n] = round(rng.uniform(-0.09, 0.09), 5)
    elif r < 0.7:
        env[rng.choice(['u11', 'u22', 'u33'])] = round(rng.uniform(-0.05, 0.0), 5)
    return env


ENV_HOOKS = {'npd': env_npd}

ORACLE_TAGS = {'sqrt': 0, 'cos': 1, 'sin': 2, 'acos': 3, 'radians': 4, 'degrees': 5}


def eval_q(tree, env, table):
    """Evaluate the tree over Fractions; irrational functions through float and recorded in table."""
    memo = {}

    def ev(n):
        k = id(n)
        if k in memo:
            return memo[k]
        op = n.op
        if op == 'var':
            v = env[n.args[0]]
        elif op == 'const':
            v = n.args[0]
        else:
            a = [ev(x) for x in n.args]
            if op == 'add': v = a[0] + a[1]
            elif op == 'sub': v = a[0] - a[1]
            elif op == 'mul': v = a[0] * a[1]
            elif op == 'div': v = a[0] / a[1]
            elif op == 'neg': v = -a[0]
            elif op in ('abs', 'fabs'): v = abs(a[0])
            elif op == 'floor': v = Fraction(math.floor(a[0]))
            else:
                x = float(a[0])
                if op == 'acos':
                    x = max(-1.0, min(1.0, x))
                if op == 'sqrt':
                    x = abs(x)
                v = Fraction(getattr(math, op)(x)).limit_denominator(10 ** 9)
                table.append((ORACLE_TAGS[op], a[0], v))
        memo[k] = v
        return v
    t = tree
    while t[0] == 'if':
        sb = t[1]
        a, b = ev(sb.args[0]), ev(sb.args[1])
        c = {'lt': a < b, 'le': a <= b, 'eq': a == b, 'ne': a != b}[sb.op]
        t = t[2] if c else t[3]
    return [ev(s) for _, s in t[1]]


def call_real(fn, env, argnames):
    class NoTr: pass
    return fn(NoTr(), *[env[n] for n in argnames])


def regenerate(files=None, validate=True, seed=1):
    """Returns dict: file -> {'ok': bool, 'error': str, 'kernels': {...}}; writes Gen/<file>.v if changed."""
    rng = random.Random(seed)
    report = {}
    os.makedirs(GEN, exist_ok=True)
    for fname, ks in KERNELS.items():
        if files and fname not in files:
            continue
        rep = {'ok': True, 'kernels': {}, 'errors': []}
        text = ['(* GENERATED by harness/trace_kernels.py from /repo on every check run: do not edit.\n'
                '   Each definition is the expression DAG recorded while running the named function of the\n'
                '   library on symbolic numbers (trace translator, DESIGN.md 2.3 Tie A). *)\n'
                'From Coq Require Import ZArith List.\nFrom SX Require Import Base.Num.\nImport ListNotations.\n']
        vcases = []
        for (name, fn, argnames) in ks:
            try:
                tree, tr = T.trace(fn, argnames)
                paths = T.out_paths(tree)
                comps = []
                for i, p in enumerate(paths):
                    cname = 'k_%s%s' % (name, p)
                    text.append(T.emit_component(cname, argnames, tree, i))
                    text.append('#[export] Hint Unfold %s : kern.\n' % cname)
                    comps.append(cname)
                args = ' '.join(argnames)
                text.append('Definition k_%s_all {T : Type} (O : Ops T) (%s : T) : list T :=\n  [%s].\n' % (
                    name, args, '; '.join('%s O %s' % (c, args) for c in comps)))
                krep = {'outputs': len(comps), 'nodes': len(tr.cache), 'rounded': tr.rounded}
                if validate:
                    nfl = 0
                    for _ in range(8 if name not in ENV_HOOKS else 40):
                        env = rand_env(rng, argnames)
                        if name in ENV_HOOKS:
                            env = ENV_HOOKS[name](rng, env)
                        try:
                            real = call_real(fn, env, argnames)
                        except (ValueError, ZeroDivisionError):
                            continue
                        out = []
                        T.flatten_out(real, out)
                        want = [v for _, v in out]
                        got = T.eval_tree(tree, env)
                        for w, g in zip(want, got):
                            # not bit-exact: CPython >= 3.12 sums floats with compensated summation
                            okv = abs(w - g) <= 1e-9 * max(1.0, abs(w)) or (w != w and g != g)
                            if not okv:
                                raise T.TraceError('tracer validation failed for %s: %r vs %r at %r' % (name, w, g, env))
                        nfl += 1
                    krep['float_validations'] = nfl
                    for _ in range(2 if name not in ENV_HOOKS else 8):
                        env0 = rand_env(rng, argnames)
                        if name in ENV_HOOKS:
                            env0 = ENV_HOOKS[name](rng, env0)
                        env = {k: Fraction(repr(v)) for k, v in env0.items()}
                        table = []
                        try:
                            vals = eval_q(tree, env, table)
                        except ZeroDivisionError:
                            continue
                        vcases.append((name, argnames, env, table, vals))
                rep['kernels'][name] = krep
            except Exception as e:  # fail closed
                rep['ok'] = False
                rep['errors'].append('%s: %s: %s' % (name, type(e).__name__, e))
        rep['vcases'] = vcases
        if rep['ok']:
            txt = '\n'.join(text)
            path = os.path.join(GEN, fname + '.v')
            if not os.path.exists(path) or open(path).read() != txt:
                open(path, 'w').write(txt)
                rep['changed'] = True
        report[fname] = rep
    return report


def printer_validation(ctx, report):
    """Evaluate the emitted Gallina over Q inside Coq on the recorded cases; exact equality."""
    terms = []
    defs = []
    imports = 'From Coq Require Import ZArith QArith List.\nFrom SX Require Import Base.Num %s.\nImport ListNotations.\nOpen Scope Q_scope.\n' % (
        ' '.join('Gen.' + f for f in report))
    n = 0
    for fname, rep in report.items():
        for (name, argnames, env, table, vals) in rep['vcases']:
            tb = common.clist(['(%d%%nat, %s, %s)' % (g, common.cq(a), common.cq(v)) for g, a, v in table])
            defs.append('Definition tb%d : otable := %s.' % (n, tb))
            args = ' '.join(common.cq(env[a]) for a in argnames)
            terms.append('forallb (fun xy => Qeq_bool (fst xy) (snd xy)) (combine (k_%s_all (QOps tb%d) %s) %s)' % (
                name, n, args, common.clist([common.cq(v) for v in vals])))
            n += 1
    if not terms:
        return 0, []
    res = common.coq_eval(ctx, 'printer_validation', imports, '\n'.join(defs), terms)
    bad = []
    i = 0
    for fname, rep in report.items():
        for (name, *_r) in rep['vcases']:
            if not common.parse_bool(res[i]):
                bad.append(name)
            i += 1
    return n, bad


if __name__ == '__main__':
    import sys, json
    r = regenerate()
    for f, rep in r.items():
        print(f, rep['ok'], rep['errors'], {k: v for k, v in rep['kernels'].items()})


def stage(ctx, gen_files, theorems):
    """Tie A stage of a check: re-trace, build the property's proofs over the fresh kernels, validate the printer."""
    rep = regenerate(gen_files, seed=ctx.seed)
    failed = [f for f, r in rep.items() if not r['ok']]
    for f in failed:
        ctx.broken.append('trace translator failed closed on %s: %s' % (f, '; '.join(rep[f]['errors'])[:300]))
    ctx.obligations += len(gen_files)
    ctx.discharged += len(gen_files) - len(failed)
    common.check_obligations(ctx, theorems)
    if not failed and ctx.notes.get('build_ok'):
        n, bad = printer_validation(ctx, rep)
        ctx.obligations += 1
        if bad:
            ctx.broken.append('translator printer validation failed for kernels %s' % bad)
        else:
            ctx.discharged += 1
        ctx.notes.setdefault('coverage_extra', {})['translator'] = {
            'kernels': {f: sorted(r['kernels']) for f, r in rep.items()}, 'printer_cases_exact_Q': n}
    ctx.assumptions += ['real-number semantics of + - * / sqrt cos sin acos (rounding, round(x, 9) not modelled)',
                        'trace translator harness/trace.py (validated each run: DAG vs source in floats, printer vs DAG in exact Q with oracle tables)']
    return rep
