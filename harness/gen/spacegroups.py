"""A table of space-group settings in SHELXL form (LATT N, SYMM lines), validated at import time of the checks
by closing each under composition in exact rational arithmetic (see closure()).  Also helpers on exact operators:
an operator is (rows, trans) with rows a 3x3 tuple of ints and trans a tuple of Fractions."""
from fractions import Fraction as F
import itertools
import re

TABLE = {
    'P1': (-1, []),
    'P-1': (1, []),
    'P21': (-1, ['-X, 1/2+Y, -Z']),
    'C2': (-7, ['-X, Y, -Z']),
    'Pc': (-1, ['X, -Y, 1/2+Z']),
    'P21/c': (1, ['-X, 1/2+Y, 1/2-Z']),
    'P21/n': (1, ['1/2-X, 1/2+Y, 1/2-Z']),
    'C2/c': (7, ['-X, Y, 1/2-Z']),
    'I2/a': (2, ['1/2-X, Y, -Z']),
    'A2/a(B-unique-like)': (5, ['1/2-X, Y, -Z']),
    'B2/b': (6, ['-X, -Y+1/2, Z']),
    'P212121': (-1, ['1/2-X, -Y, 1/2+Z', '-X, 1/2+Y, 1/2-Z', '1/2+X, 1/2-Y, -Z']),
    'Pna21': (-1, ['-X, -Y, 1/2+Z', '1/2+X, 1/2-Y, Z', '1/2-X, 1/2+Y, 1/2+Z']),
    'Pbca': (1, ['1/2-X, -Y, 1/2+Z', '-X, 1/2+Y, 1/2-Z', '1/2+X, 1/2-Y, -Z']),
    'Pnma': (1, ['1/2-X, -Y, 1/2+Z', '-X, 1/2+Y, -Z', '1/2+X, 1/2-Y, 1/2-Z']),
    'Aba2': (-5, ['-X, -Y, Z', '1/2+X, 1/2-Y, Z', '1/2-X, 1/2+Y, Z']),
    'Fdd2': (-4, ['-X, -Y, Z', '1/4+X, 1/4-Y, 1/4+Z', '1/4-X, 1/4+Y, 1/4+Z']),
    'Ibca': (2, ['1/2-X, -Y, 1/2+Z', '-X, 1/2+Y, 1/2-Z', '1/2+X, 1/2-Y, -Z']),
    'P41': (-1, ['-X, -Y, 1/2+Z', '-Y, X, 1/4+Z', 'Y, -X, 3/4+Z']),
    'P4/n': (1, ['1/2-X, 1/2-Y, Z', '-Y, 1/2+X, Z', '1/2+Y, -X, Z']),
    'I41/a': (2, ['1/2-X, -Y, 1/2+Z', '3/4-Y, 1/4+X, 1/4+Z', '3/4+Y, 3/4-X, 3/4+Z']),
    'P31': (-1, ['-Y, X-Y, 1/3+Z', '-X+Y, -X, 2/3+Z']),
    'P-3': (1, ['-Y, X-Y, Z', '-X+Y, -X, Z']),
    'R-3': (3, ['-Y, X-Y, Z', '-X+Y, -X, Z']),
    'R3c': (-3, ['-Y, X-Y, Z', '-X+Y, -X, Z', '-Y, -X, 1/2+Z', '-X+Y, Y, 1/2+Z', 'X, X-Y, 1/2+Z']),
    'P-31c': (1, ['-Y, X-Y, Z', '-X+Y, -X, Z', '-Y, -X, 1/2-Z', '-X+Y, Y, 1/2-Z', 'X, X-Y, 1/2-Z']),
    'P63/m': (1, ['-Y, X-Y, Z', '-X+Y, -X, Z', '-X, -Y, 1/2+Z', 'Y, -X+Y, 1/2+Z', 'X-Y, X, 1/2+Z']),
    'P61': (-1, ['-Y, X-Y, 1/3+Z', '-X+Y, -X, 2/3+Z', '-X, -Y, 1/2+Z', 'Y, -X+Y, 5/6+Z', 'X-Y, X, 1/6+Z']),
    'P213': (-1, ['1/2-X, -Y, 1/2+Z', '-X, 1/2+Y, 1/2-Z', '1/2+X, 1/2-Y, -Z', 'Z, X, Y', '1/2+Z, 1/2-X, -Y',
                  '1/2-Z, -X, 1/2+Y', '-Z, 1/2+X, 1/2-Y', 'Y, Z, X', '-Y, 1/2+Z, 1/2-X', '1/2+Y, 1/2-Z, -X', '1/2-Y, -Z, 1/2+X']),
    'Pa-3': (1, ['1/2-X, -Y, 1/2+Z', '-X, 1/2+Y, 1/2-Z', '1/2+X, 1/2-Y, -Z', 'Z, X, Y', '1/2+Z, 1/2-X, -Y',
                 '1/2-Z, -X, 1/2+Y', '-Z, 1/2+X, 1/2-Y', 'Y, Z, X', '-Y, 1/2+Z, 1/2-X', '1/2+Y, 1/2-Z, -X', '1/2-Y, -Z, 1/2+X']),
    'F23': (-4, ['-X, -Y, Z', '-X, Y, -Z', 'X, -Y, -Z', 'Z, X, Y', 'Z, -X, -Y', '-Z, -X, Y', '-Z, X, -Y', 'Y, Z, X', '-Y, Z, -X', 'Y, -Z, -X', '-Y, -Z, X']),
}

CENTRING = {1: [], 2: [(F(1, 2),) * 3], 3: [(F(1, 3), F(2, 3), F(2, 3)), (F(2, 3), F(1, 3), F(1, 3))],
            4: [(0, F(1, 2), F(1, 2)), (F(1, 2), 0, F(1, 2)), (F(1, 2), F(1, 2), 0)], 5: [(0, F(1, 2), F(1, 2))],
            6: [(F(1, 2), 0, F(1, 2))], 7: [(F(1, 2), F(1, 2), 0)]}
IDENT = (((1, 0, 0), (0, 1, 0), (0, 0, 1)), (F(0), F(0), F(0)))


def parse_component(text):
    """independent exact parser of one component: signed x/y/z terms and one numeral, any order"""
    s = text.upper().replace(' ', '')
    row = [0, 0, 0]
    tr = F(0)
    for m in re.finditer(r'([+-]?)([XYZ]|\d*\.\d+|\d+/\d+|\d+\.?)', s):
        sg = -1 if m.group(1) == '-' else 1
        tok = m.group(2)
        if tok in 'XYZ':
            row['XYZ'.index(tok)] = sg
        else:
            tr += sg * F(tok if '/' in tok else (('0' + tok) if tok.startswith('.') else tok.rstrip('.')))
    if ''.join(m.group(0) for m in re.finditer(r'([+-]?)([XYZ]|\d*\.\d+|\d+/\d+|\d+\.?)', s)) != s:
        raise ValueError('unparsable component %r' % text)
    return tuple(row), tr


def parse_op(text):
    comps = [parse_component(c) for c in text.split(',')]
    return tuple(c[0] for c in comps), tuple(c[1] for c in comps)


def mod1(op):
    return op[0], tuple(t % 1 for t in op[1])


def compose(a, b):
    """a after b: x -> Ra (Rb x + tb) + ta"""
    R = tuple(tuple(sum(a[0][i][k] * b[0][k][j] for k in range(3)) for j in range(3)) for i in range(3))
    t = tuple(sum(a[0][i][k] * b[1][k] for k in range(3)) + a[1][i] for i in range(3))
    return R, t


def invert(op):
    return tuple(tuple(-v for v in r) for r in op[0]), tuple(-t for t in op[1])


def expected(n, ops):
    """the list the property demands, from LATT N and the parsed SYMM operators (exact)"""
    out = []
    for g in [IDENT] + list(ops):
        centred = [g] + [(g[0], tuple(a + b for a, b in zip(g[1], c))) for c in CENTRING[abs(n)]]
        out += centred
        if n > 0:
            out += [invert(o) for o in centred]
    return out


def closed(ops):
    s = {mod1(o) for o in ops}
    return all(mod1(compose(a, b)) in s for a in s for b in s)


def validate_table():
    bad = []
    for name, (n, symms) in TABLE.items():
        ex = expected(n, [parse_op(s) for s in symms])
        if len({mod1(o) for o in ex}) != len(ex) or not closed(ex):
            bad.append(name)
    return bad


SIGNED_PERMS = []
for perm in itertools.permutations(range(3)):
    for signs in itertools.product([1, -1], repeat=3):
        SIGNED_PERMS.append(tuple(tuple(signs[i] if j == perm[i] else 0 for j in range(3)) for i in range(3)))


def op_text(op, rng=None, style=0):
    """render an exact operator in SHELXL syntax; style varies the spelling"""
    comps = []
    for i in range(3):
        terms = []
        for j in range(3):
            if op[0][i][j]:
                terms.append(('-' if op[0][i][j] < 0 else '+') + 'XYZ'[j])
        t = op[1][i]
        if style in (3, 4):
            # other legal spellings of the same operator: terms in the order z, y, x (so that a negative term can stand in front of a positive
            # one: '-Y+X'), translations as the negative representative modulo 1 ('-1/2+Y', 'Y-1/2')
            terms = terms[::-1]
            if t and t >= F(1, 2):
                t = t - 1
        num = ''
        if t:
            a = abs(t)
            if style == 2 and a.denominator in (2, 4, 8):
                num = ('-' if t < 0 else '+') + str(float(a))
            elif style == 5 and a.denominator in (2, 4, 8):
                # the spelling of SHELXL-written files and of CIF converters: 'Y+ 0.50000'
                num = ('-' if t < 0 else '+') + ' %.5f' % float(a)
            else:
                num = ('-' if t < 0 else '+') + '%d/%d' % (a.numerator, a.denominator)
        body = (num + ''.join(terms)) if style not in (1, 4, 5) else (''.join(terms) + num)
        if body.startswith('+'):
            body = body[1:]
        comps.append(body or '0')
    return ', '.join(comps)
