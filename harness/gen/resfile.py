"""By-construction generator of valid SHELXL instruction files (DESIGN.md 2.2): an abstract file is a list of
logical lines (token lists with their meaning), `render` turns it into text under a layout (continuation lines,
blanks, comments, case), and the expected model (atoms with their context, instructions with their parameters)
is known from the construction, never from parsing.

The syntax table SYNTAX is the transcription of the syntax summary the library documents in
shelxfile/shelx/cards.py (docstring at the top of the module); check_syntax_table() compares the two."""
import re
from fractions import Fraction

# keyword -> (min numeric, max numeric, words: None | (min, max), residue suffix allowed, defaults of the numeric slots or None)
SYNTAX = {
    'ABIN': (0, 2, None, False, None),
    'ACTA': (0, 1, None, False, None),
    'AFIX': (1, 4, None, False, None),
    'ANIS': (0, 1, (0, 4), True, None),
    'ANSC': (6, 6, None, False, None),
    'ANSR': (0, 1, None, False, [0.001]),
    'BASF': (1, 5, None, False, None),
    'BIND': (0, 0, (2, 2), False, None),
    'BLOC': (0, 2, (0, 3), False, None),
    'BOND': (0, 0, (0, 4), True, None),
    'BUMP': (0, 1, None, False, [0.02]),
    'CGLS': (0, 3, None, False, [0, 0, 0]),
    'CHIV': (0, 2, (1, 4), True, [0, 0.1]),
    'CONF': (0, 0, (0, 4), True, None),
    'CONN': (0, 2, (0, 3), True, [12, None]),
    'DAMP': (0, 2, None, False, [0.7, 15]),
    'DANG': (1, 2, (2, 4), True, [None, 0.04]),
    'DEFS': (0, 5, None, False, [0.02, 0.1, 0.01, 0.04, 1]),
    'DELU': (0, 2, (0, 4), True, [0.01, 0.01]),
    'DFIX': (1, 2, (2, 4), True, [None, 0.02]),
    'EADP': (0, 0, (2, 4), True, None),
    'EXTI': (0, 1, None, False, [0]),
    'EXYZ': (0, 0, (2, 4), True, None),
    'FLAT': (0, 1, (4, 6), True, [0.1]),
    'FMAP': (0, 3, None, False, [2, None, 53]),
    'FREE': (0, 0, (2, 2), False, None),
    'GRID': (0, 6, None, False, None),
    'HFIX': (1, 3, (1, 3), True, None),
    'HTAB': (0, 1, None, False, [2.0]),
    'ISOR': (0, 2, (0, 4), True, [0.1, 0.2]),
    'L.S.': (0, 3, None, False, [0, 0, 0]),
    'LIST': (0, 2, None, False, [None, 1]),
    'MERG': (0, 1, None, False, [2]),
    'MORE': (0, 1, None, False, [1]),
    'MOVE': (0, 4, None, False, [0, 0, 0, 1]),
    'MPLA': (0, 1, (3, 5), True, None),
    'NCSY': (1, 3, (1, 3), True, [None, 0.1, 0.05]),
    'OMIT': (0, 3, None, False, [-2, 180]),
    'PLAN': (0, 3, None, False, [20, None, None]),
    'PRIG': (0, 1, None, False, None),
    'RIGU': (0, 2, (0, 4), True, [0.004, 0.004]),
    'RTAB': (0, 0, (3, 5), True, None),
    'SADI': (0, 1, (0, 4), True, [0.02]),
    'SAME': (0, 2, (1, 4), True, [0.02, 0.04]),
    'SHEL': (0, 2, None, False, [None, 0]),
    'SIMU': (0, 3, (0, 4), True, [0.04, 0.08, 2.0]),
    'SIZE': (1, 3, None, False, None),
    'SPEC': (0, 1, None, False, [0.2]),
    'STIR': (1, 2, None, False, [None, 0.01]),
    'SUMP': (4, 8, None, False, None),
    'SWAT': (0, 2, None, False, [0, 2]),
    'TEMP': (0, 1, None, False, [20]),
    'TWIN': (0, 10, None, False, [-1, 0, 0, 0, -1, 0, 0, 0, -1, 2]),
    'TWST': (0, 1, None, False, [0]),
    'WGHT': (0, 6, None, False, [0.1, 0, 0, 0, 0, 0.33333]),
    'WIGL': (0, 2, None, False, [0.2, 0.2]),
    'WPDB': (0, 1, None, False, [1]),
    'XNPD': (0, 1, None, False, [-0.001]),
    'HKLF': (0, 13, None, False, [0, 1, 1, 0, 0, 0, 1, 0, 0, 0, 1, 1, 0]),
}
# admissible numeric counts where not every prefix is valid
ARITIES = {'MOVE': [0, 3, 4], 'TWIN': [0, 9, 10], 'HKLF': [0, 1, 2, 11, 12, 13], 'SUMP': [4, 6, 8], 'OMIT': [0, 1, 2, 3],
           'ANSC': [6]}
UNKNOWN_KEYWORDS = ['TIME', 'MOLE', 'HOPE', 'BEDE', 'LONE']
HEADER_KEYWORDS = ['TITL', 'CELL', 'ZERR', 'LATT', 'SYMM', 'SFAC', 'DISP', 'UNIT', 'FVAR', 'RESI', 'PART', 'END', 'REM',
                   'FRAG', 'FEND', 'EQIV', 'NEUT', 'LAUE']


def docstring_keywords():
    """keywords and bracketed defaults of the syntax summary in shelxfile/shelx/cards.py"""
    import shelxfile.shelx.cards as cards
    doc = cards.__doc__ or ''
    if not doc:
        # the summary may be a module-level string that is not the docstring
        src = open(cards.__file__).read()
        m = re.search(r'"""(.*?)"""', src, re.S)
        doc = m.group(1) if m else ''
    out = {}
    for line in doc.splitlines():
        m = re.match(r'\s*([A-Z][A-Z.]{2,3})\b(.*)', line)
        if m and m.group(1) not in out:
            out[m.group(1)] = m.group(2)
    return out


def check_syntax_table():
    """every keyword of SYNTAX (and of the header set) is documented by the library; returns list of problems"""
    doc = docstring_keywords()
    bad = []
    for kw in list(SYNTAX) + ['TITL', 'CELL', 'ZERR', 'LATT', 'SYMM', 'SFAC', 'UNIT', 'FVAR', 'RESI', 'PART']:
        if kw not in doc:
            bad.append('keyword %s not in the library syntax summary' % kw)
    for kw, (lo, hi, words, sfx, defaults) in SYNTAX.items():
        if kw in doc and defaults:
            found = re.findall(r'\[([^\]]*)\]', doc[kw])
            # compare bracketed numeric defaults position-wise where the summary gives numbers
            nums = []
            for f in found:
                try:
                    nums.append(float(f.replace('.33333', '0.33333')) if f not in ('#', ' ', '') else None)
                except ValueError:
                    nums.append(None)
            for i, (d, e) in enumerate(zip(defaults, nums)):
                if d is not None and e is not None and abs(d - e) > 1e-9:
                    bad.append('default %d of %s differs: table %s, summary %s' % (i, kw, d, e))
    return bad


# ----------------------------------------------------------------------------- values

def distinct_numbers(rng, n, integer=False):
    """pairwise distinct values different from all documented defaults"""
    out = []
    while len(out) < n:
        v = rng.randint(3, 97) if integer else round(rng.uniform(0.011, 0.987), 3) + rng.randint(1, 8)
        if v not in out and v not in (1, 2, 12, 15, 20, 53, 170, 180):
            out.append(v)
    return out


def fmt_num(v):
    if isinstance(v, int):
        return str(v)
    s = ('%.6f' % v).rstrip('0')
    return s + '0' if s.endswith('.') else s


ATOM_NAMES = ['C1', 'C2', 'C3', 'O1', 'N1', 'C4', 'C5', 'F1', 'C1A', 'O2B']


# ----------------------------------------------------------------------------- rendering

def render_logical(tokens, lay, rng):
    """tokens -> physical lines under layout dict lay: wraps (set of token boundaries 1..n-1), gaps, comment, case"""
    wraps = lay.get('wraps', set())
    gap = lay.get('gap', 1)
    lines = []
    cur = ''
    for i, t in enumerate(tokens):
        if lay.get('lower') and (i == 0 or lay.get('lower') == 'all'):
            t = t.lower()
        if i == 0:
            cur = t
        elif i in wraps:
            lines.append(cur + ' =')
            cur = ' ' * lay.get('indent', 3) + t
        else:
            cur += ' ' * (gap if isinstance(gap, int) else rng.randint(1, 3)) + t
    lines.append(cur)
    if lay.get('comment'):
        k = lay.get('comment_line', len(lines) - 1) % len(lines)
        if k == len(lines) - 1:
            lines[k] = lines[k] + ' ! ' + lay['comment']
    out = []
    for b in lay.get('before', []):
        out.append(b)
    out.extend(lines)
    return out


def independent_lex(text):
    """SHELXL lexer used by the oracles (not by the library): logical lines as token lists.
    Comment from '!', continuation when the remaining text contains '=', continuation lines start with a blank;
    lines starting with a blank (not following a continuation) and empty lines are ignored; TITL/REM are free text."""
    out = []
    lines = text.split('\n')
    i = 0
    while i < len(lines):
        ln = lines[i]
        i += 1
        if not ln.strip() or ln[0] == ' ':
            continue
        kw = ln[:4].upper()
        if kw.startswith('REM') or kw == 'TITL':
            out.append({'raw': ln, 'tokens': ln.split(), 'free': True})
            continue
        body = ln.split('!')[0]
        toks = []
        while True:
            if '=' in body:
                toks += body.split('=')[0].split()
                if i < len(lines):
                    body = lines[i].split('!')[0]
                    i += 1
                    continue
                break
            toks += body.split()
            break
        out.append({'raw': ln, 'tokens': toks, 'free': False})
    return out
