"""By-construction generator of valid SHELXL instruction files (DESIGN.md 2.2): an abstract file is a list of
logical lines (token lists with their meaning), `render` turns it into text under a layout (continuation lines,
blanks, comments, case), and the expected model (atoms with their context, instructions with their parameters)
is known from the construction, never from parsing.

The syntax table SYNTAX is the transcription of the syntax summary the library documents in
shelxfile/shelx/cards.py (docstring at the top of the module); check_syntax_table() compares the two."""
import re
from fractions import Fraction

# keyword -> (min numeric, max numeric, words: None | (min, max), residue suffix allowed, defaults of the numeric slots or None)
SYNTAX = {
    'ABIN': (0, 2, None, False, None),
    'ACTA': (0, 1, None, False, None),
    'AFIX': (1, 4, None, False, None),
    'ANIS': (0, 1, (0, 4), True, None),
    'ANSC': (6, 6, None, False, None),
    'ANSR': (0, 1, None, False, [0.001]),
    'BASF': (1, 5, None, False, None),
    'BIND': (0, 0, (2, 2), False, None),
    'BLOC': (0, 2, (0, 3), False, None),
    'BOND': (0, 0, (0, 4), True, None),
    'BUMP': (0, 1, None, False, [0.02]),
    'CGLS': (0, 3, None, False, [0, 0, 0]),
    'CHIV': (0, 2, (1, 4), True, [0, 0.1]),
    'CONF': (0, 0, (0, 4), True, None),
    'CONN': (0, 2, (0, 3), True, [12, None]),
    'DAMP': (0, 2, None, False, [0.7, 15]),
    'DANG': (1, 2, (2, 4), True, [None, 0.04]),
    'DEFS': (0, 5, None, False, [0.02, 0.1, 0.01, 0.04, 1]),
    'DELU': (0, 2, (0, 4), True, [0.01, 0.01]),
    'DFIX': (1, 2, (2, 4), True, [None, 0.02]),
    'EADP': (0, 0, (2, 4), True, None),
    'EXTI': (0, 1, None, False, [0]),
    'EXYZ': (0, 0, (2, 4), True, None),
    'FLAT': (0, 1, (4, 6), True, [0.1]),
    'FMAP': (0, 3, None, False, [2, None, 53]),
    'FREE': (0, 0, (2, 2), False, None),
    'GRID': (0, 6, None, False, None),
    'HFIX': (1, 3, (1, 3), True, None),
    'HTAB': (0, 1, None, False, [2.0]),
    'ISOR': (0, 2, (0, 4), True, [0.1, 0.2]),
    'L.S.': (0, 3, None, False, [0, 0, 0]),
    'LIST': (0, 2, None, False, [None, 1]),
    'MERG': (0, 1, None, False, [2]),
    'MORE': (0, 1, None, False, [1]),
    'MOVE': (0, 4, None, False, [0, 0, 0, 1]),
    'MPLA': (0, 1, (3, 5), True, None),
    'NCSY': (1, 3, (1, 3), True, [None, 0.1, 0.05]),
    'OMIT': (0, 3, None, False, [-2, 180]),
    'PLAN': (0, 3, None, False, [20, None, None]),
    'PRIG': (0, 1, None, False, None),
    'RIGU': (0, 2, (0, 4), True, [0.004, 0.004]),
    'RTAB': (0, 0, (3, 5), True, None),
    'SADI': (0, 1, (0, 4), True, [0.02]),
    'SAME': (0, 2, (1, 4), True, [0.02, 0.04]),
    'SHEL': (0, 2, None, False, [None, 0]),
    'SIMU': (0, 3, (0, 4), True, [0.04, 0.08, 2.0]),
    'SIZE': (1, 3, None, False, None),
    'SPEC': (0, 1, None, False, [0.2]),
    'STIR': (1, 2, None, False, [None, 0.01]),
    'SUMP': (4, 8, None, False, None),
    'SWAT': (0, 2, None, False, [0, 2]),
    'TEMP': (0, 1, None, False, [20]),
    'TWIN': (0, 10, None, False, [-1, 0, 0, 0, -1, 0, 0, 0, -1, 2]),
    'TWST': (0, 1, None, False, [0]),
    'WGHT': (0, 6, None, False, [0.1, 0, 0, 0, 0, 0.33333]),
    'WIGL': (0, 2, None, False, [0.2, 0.2]),
    'WPDB': (0, 1, None, False, [1]),
    'XNPD': (0, 1, None, False, [-0.001]),
    'HKLF': (0, 13, None, False, [0, 1, 1, 0, 0, 0, 1, 0, 0, 0, 1, 1, 0]),
}
# admissible numeric counts where not every prefix is valid
ARITIES = {'MOVE': [0, 3, 4], 'TWIN': [0, 9, 10], 'HKLF': [0, 1, 2, 11, 12, 13], 'SUMP': [4, 6, 8], 'OMIT': [0, 1, 2, 3],
           'ANSC': [6]}
UNKNOWN_KEYWORDS = ['TIME', 'MOLE', 'HOPE', 'BEDE', 'LONE']
HEADER_KEYWORDS = ['TITL', 'CELL', 'ZERR', 'LATT', 'SYMM', 'SFAC', 'DISP', 'UNIT', 'FVAR', 'RESI', 'PART', 'END', 'REM',
                   'FRAG', 'FEND', 'EQIV', 'NEUT', 'LAUE']


def docstring_keywords():
    """keywords and bracketed defaults of the syntax summary in shelxfile/shelx/cards.py"""
    import shelxfile.shelx.cards as cards
    doc = cards.__doc__ or ''
    if not doc:
        # the summary may be a module-level string that is not the docstring
        src = open(cards.__file__).read()
        m = re.search(r'"""(.*?)"""', src, re.S)
        doc = m.group(1) if m else ''
    out = {}
    for line in doc.splitlines():
        m = re.match(r'\s*([A-Z][A-Z.]{2,3})(?=\s|$)(.*)', line)
        if m:
            out[m.group(1)] = out.get(m.group(1), '') + ' ' + m.group(2)
    return out


def check_syntax_table():
    """every keyword of SYNTAX (and of the header set) is documented by the library; returns list of problems"""
    doc = docstring_keywords()
    bad = []
    for kw in list(SYNTAX) + ['TITL', 'CELL', 'ZERR', 'LATT', 'SYMM', 'SFAC', 'UNIT', 'FVAR', 'RESI', 'PART']:
        if kw not in doc:
            bad.append('keyword %s not in the library syntax summary' % kw)
    for kw, (lo, hi, words, sfx, defaults) in SYNTAX.items():
        if kw in doc and defaults:
            # all numbers the summary gives in brackets, in order, against the table's known defaults, in order
            nums = []
            for f in re.findall(r'\[([^\]]*)\]', doc[kw]):
                for tok in f.split():
                    try:
                        nums.append(float(tok))
                    except ValueError:
                        pass
            mine = [float(d) for d in defaults if d is not None]
            it = iter(nums)
            if not all(any(abs(a - b) < 1e-9 for b in it) for a in mine):    # table defaults = subsequence of the summary's
                bad.append('defaults of %s differ: table %s, summary %s' % (kw, mine, nums))
    return bad


# ----------------------------------------------------------------------------- values

def distinct_numbers(rng, n, integer=False):
    """pairwise distinct values different from all documented defaults"""
    out = []
    while len(out) < n:
        v = rng.randint(3, 97) if integer else round(rng.uniform(0.011, 0.987), 3) + rng.randint(1, 8)
        if v not in out and v not in (1, 2, 12, 15, 20, 53, 170, 180):
            out.append(v)
    return out


def fmt_num(v):
    if isinstance(v, int):
        return str(v)
    s = ('%.6f' % v).rstrip('0')
    return s + '0' if s.endswith('.') else s


def respell(tok, k):
    """another spelling of the same decimal numeral, all of them legal free-format input: no digit before the point
    ('.5', '-.5', '+.5'), an explicit plus sign, a trailing zero; k selects the variant; non-numerals are returned unchanged"""
    import re as _re
    if not _re.fullmatch(r'[+-]?\d+(\.\d*)?', tok):
        return tok
    neg = tok.startswith('-')
    sign = '-' if neg else ''
    body = tok.lstrip('+-')
    if '.' not in body:
        return tok if neg or k % 2 else '+' + body
    ip, fp = body.split('.')
    options = []
    if ip == '0' and fp:
        options.append(sign + '.' + fp)
        if not neg:
            options.append('+.' + fp)
    if not neg:
        options.append('+' + body)
    options.append(sign + body + '0')
    if neg and ip == '0' and fp:
        options.append('-.' + fp + '0')
    return options[k % len(options)]


ATOM_NAMES = ['C1', 'C2', 'C3', 'O1', 'N1', 'C4', 'C5', 'F1', 'C1A', 'O2B']


# ----------------------------------------------------------------------------- rendering

def render_logical(tokens, lay, rng):
    """tokens -> physical lines under layout dict lay: wraps (set of token boundaries 1..n-1), gaps, comment, case"""
    wraps = lay.get('wraps', set())
    gap = lay.get('gap', 1)
    lines = []
    cur = ''
    for i, t in enumerate(tokens):
        if lay.get('lower') and (i == 0 or lay.get('lower') == 'all'):
            t = t.lower()
        if i == 0:
            cur = t
        elif i in wraps:
            lines.append(cur + ('=' if lay.get('tight') else ' ='))      # the mark is the last character of the line, with or without a blank in front
            cur = ' ' * lay.get('indent', 3) + t
        else:
            cur += ' ' * (gap if isinstance(gap, int) else rng.randint(1, 3)) + t
    lines.append(cur)
    if lay.get('comment'):
        k = lay.get('comment_line', len(lines) - 1) % len(lines)
        if k == len(lines) - 1:
            lines[k] = lines[k] + ' ! ' + lay['comment']
    out = []
    for b in lay.get('before', []):
        out.append(b)
    out.extend(lines)
    return out


def independent_lex(text):
    """SHELXL lexer used by the oracles (not by the library): logical lines as token lists.
    Comment from '!', continuation when the remaining text contains '=', continuation lines start with a blank;
    lines starting with a blank (not following a continuation) and empty lines are ignored; TITL/REM are free text."""
    out = []
    lines = text.split('\n')
    i = 0
    while i < len(lines):
        ln = lines[i]
        i += 1
        if not ln.strip() or ln[0] == ' ':
            continue
        kw = ln[:4].upper()
        if kw.startswith('REM') or kw == 'TITL':
            out.append({'raw': ln, 'tokens': ln.split(), 'free': True})
            continue
        body = ln.split('!')[0]
        toks = []
        while True:
            if '=' in body:
                toks += body.split('=')[0].split()
                if i < len(lines):
                    body = lines[i].split('!')[0]
                    i += 1
                    continue
                break
            toks += body.split()
            break
        out.append({'raw': ln, 'tokens': toks, 'free': False})
    return out


# ----------------------------------------------------------------------------- whole files

SFAC_ELEMENTS = ['C', 'H', 'O', 'N', 'F', 'Cl', 'S']
EXPLICIT_COEFFICIENTS = '13.338 3.5828 7.1676 0.247 5.6158 11.3966 1.6735 64.8126 1.191 0.32 1.265 5.0 1.28 63.546'.split()
INT_KW = {'AFIX', 'MPLA', 'L.S.', 'CGLS', 'LIST', 'MORE', 'MERG', 'PLAN', 'FMAP', 'HKLF', 'WPDB', 'TWST', 'LATT'}


def instr_tokens(rng, kw, names, arity=None, nwords=None, suffix=None):
    """a valid instruction of the syntax table: returns (tokens, nums, words)"""
    lo, hi, words, sfx, defaults = SYNTAX[kw]
    ar = ARITIES.get(kw, list(range(lo, hi + 1)))
    n = rng.choice(ar) if arity is None else arity
    if kw == 'HKLF':
        nums = [4, 1, 1, 0, 0, 0, 1, 0, 0, 0, 1, 1, 0][:n]
        if n > 2:
            nums = [4, 1, 0, 1, 0, 1, 0, 0, 0, 0, -1, 0.5, 2][:n]
    elif kw == 'TWIN':
        nums = ([0, 1, 0, 1, 0, 0, 0, 0, -1] + [-4])[:n]
    elif kw == 'AFIX':
        nums = [rng.choice([43, 137, 23, 13, 66, 0])] + [0.98, 11.0, -1.2][:max(0, n - 1)]
    elif kw == 'HFIX':
        nums = [rng.choice([43, 137, 23])] + [-1.2, 0.97][:n - 1]
    elif kw == 'DANG':
        d = round(rng.uniform(2.1, 2.9), 3)
        nums = [d] + [round(rng.uniform(0.01, 0.09), 3)][:n - 1]
    elif kw == 'DFIX':
        nums = [round(rng.uniform(1.1, 1.9), 3)] + [round(rng.uniform(0.011, 0.05), 3)][:n - 1]
        if rng.random() < 0.15:
            nums[0] = -round(rng.uniform(2.5, 3.2), 3)      # a negative d is the anti-bumping form of DFIX
    elif kw == 'NCSY':
        nums = [rng.randint(1, 4)] + distinct_numbers(rng, n - 1)
    elif kw == 'MPLA':
        nums = [rng.randint(3, 5)][:n]
    elif kw == 'SUMP':
        nums = [1.0, 0.01] + [v for k in range((n - 2) // 2) for v in (1.0, k + 2)]
    elif kw == 'OMIT' and n == 3:
        nums = [rng.randint(-5, 5) for _ in range(3)]
    elif kw in ('L.S.', 'CGLS'):
        nums = [rng.randint(1, 20), rng.choice([0, 0, 2, -1]), rng.randint(1, 9)][:n]
    elif kw == 'LIST':
        nums = [rng.choice([4, 6, 8]), 1][:n]
    elif kw == 'ACTA':
        nums = [rng.choice([50, 52.5, 55])][:n]
    elif kw == 'WGHT':
        nums = [round(rng.uniform(0.01, 0.2), 4), round(rng.uniform(0.0, 3), 4), 0, 0, 0, 0.3333][:n]
    elif kw == 'DEFS':
        nums = [0.01, 0.2, 0.02, 0.05, 1.5][:n]
    elif kw == 'MOVE':
        nums = [0.5, 0.25, 0.75, -1][:n]
    else:
        nums = distinct_numbers(rng, n, integer=kw in INT_KW)
    if words:
        w = rng.randint(words[0], words[1]) if nwords is None else nwords
        if kw in ('DFIX', 'DANG', 'SADI') and w % 2:
            w += 1
        ws = [rng.choice(names) for _ in range(w)] if names else []
        if kw == 'RTAB':
            ws = ['Dist'] + ws[1:]
        if kw == 'ANIS' and n > 0:
            ws = []
    else:
        ws = []
    head = kw
    if sfx and suffix:
        head = kw + '_' + suffix
    toks = [head] + [fmt_num(x) for x in nums] + ws
    return toks, nums, ws


ZERO_OK = {'DAMP', 'ISOR', 'SIMU', 'DELU', 'RIGU', 'SADI', 'FLAT', 'CHIV', 'SAME', 'BUMP', 'WIGL', 'SWAT', 'SPEC', 'XNPD', 'SHEL', 'ABIN', 'ANSR', 'TWST',
           'WPDB', 'PRIG', 'GRID', 'EXTI', 'TEMP', 'SIZE', 'MERG', 'STIR'}


def gen_file(rng, natoms=None, ninstr=None, with_qpeaks=True, restraints=True, keywords=None, resi=True, parts=True, afix=True):
    """returns dict(lines=[logical line dicts], atoms=[expected atom dicts], header info)"""
    lines = []

    def add(tokens, kind, **kw):
        d = {'tokens': list(tokens), 'kind': kind}
        d.update(kw)
        lines.append(d)
        return d
    add(rng.choice([['TITL', 'generated', 'file', 'in', 'P2(1)/c'], ['TITL', 'x', '=', '3', 'compound', 'in', 'P2(1)/c'], ['TITL', 'mo_abc_0m', 'in', 'P-1']]), 'titl')
    cell = [0.71073, round(rng.uniform(7, 15), 3), round(rng.uniform(7, 15), 3), round(rng.uniform(7, 15), 3), 90, round(rng.uniform(91, 110), 2), 90]
    add(['CELL'] + [fmt_num(x) for x in cell], 'cell', nums=cell)
    zerr = [rng.choice([2, 4, 8]), 0.001, 0.002, 0.003, 0, 0.01, 0]
    add(['ZERR'] + [fmt_num(x) for x in zerr], 'zerr', nums=zerr)
    latt = rng.choice([1, -1, 2, 7])
    add(['LATT', str(latt)], 'latt', nums=[latt])
    add(['SYMM', '-X,', '1/2+Y,', '1/2-Z'], 'symm')
    nel = rng.randint(3, len(SFAC_ELEMENTS))
    els = SFAC_ELEMENTS[:nel] if rng.random() < 0.5 else rng.sample(SFAC_ELEMENTS, nel)      # any order of the scattering factors
    r_sf = rng.random()
    if r_sf < 0.35:
        k = rng.randint(1, nel - 1)
        add(['SFAC'] + els[:k], 'sfac', elements=els[:k])
        add(['SFAC'] + els[k:], 'sfac', elements=els[k:])
    elif r_sf < 0.5:
        # the last element with explicit scattering factors, its symbol in any case
        add(['SFAC'] + els[:-1], 'sfac', elements=els[:-1])
        sym = rng.choice([els[-1], els[-1].upper(), els[-1].lower()])
        add(['SFAC', sym] + EXPLICIT_COEFFICIENTS, 'sfacx', elements=[els[-1]])
    else:
        add(['SFAC'] + els, 'sfac', elements=els)
    unit = [rng.choice([4, 8, 12, 16, 24, 36, 40]) for _ in els]
    add(['UNIT'] + [str(u) for u in unit], 'unit', nums=unit)
    natoms = natoms if natoms is not None else rng.randint(3, 9)
    names = []
    for i in range(natoms):
        el = rng.choice(els)
        names.append('%s%d%s' % (el, i + 1, rng.choice(['', '', 'A', 'B'])))
    # global instructions before the atoms
    glob = ['L.S.', 'PLAN', 'TEMP', 'SIZE', 'ACTA', 'BOND', 'CONF', 'FMAP', 'LIST', 'WGHT', 'MORE', 'SHEL', 'OMIT', 'MERG', 'EXTI', 'SWAT',
            'DAMP', 'TWIN', 'BASF', 'XNPD', 'WPDB', 'WIGL', 'GRID', 'ABIN', 'ANSR', 'PRIG', 'SPEC', 'STIR', 'TWST', 'MOVE', 'ANSC', 'HTAB', 'CGLS', 'BLOC',
            'BIND', 'FREE', 'EQIV_', 'DEFS']
    pool = keywords if keywords is not None else glob
    k = ninstr if ninstr is not None else rng.randint(2, 8)
    chosen = rng.sample(pool, min(k, len(pool)))
    if 'DEFS' in chosen:      # DEFS has to come before the restraints it modifies
        chosen.remove('DEFS'); chosen.insert(0, 'DEFS')
    for kw in chosen:
        if kw == 'EQIV_':
            add(['EQIV', '$1', '-x,', 'y+1/2,', '-z'], 'instr', kw='EQIV')
            continue
        toks, nums, ws = instr_tokens(rng, kw, names)
        if nums and kw in ZERO_OK and rng.random() < 0.12:
            toks = [toks[0]] + ['0'] * len(nums) + toks[1 + len(nums):]
            nums = [0] * len(nums)
        add(toks, 'instr', kw=kw, nums=nums, words=ws)
    REMS = [['REM', 'target', 'distance', 'd(C-C)', '=', '1.54'], ['REM', 'a', 'plain', 'remark'], ['REM', 'R1', '=', '0.0400', 'for', '1234', 'Fo', '>', '4sig(Fo)'],
            ['REM', 'R1', '=', '0.0400', 'for', '1234', 'Fo', '>', '4sig(Fo)', 'and', '0.0512', 'for', 'all', '2000', 'data'],
            ['REM', 'wR2', '=', '0.1143,', 'GooF', '=', 'S', '=', '1.044,', 'Restrained', 'GooF', '=', '1.046', 'for', 'all', 'data'],
            ['REM', 'Highest', 'difference', 'peak', '0.407,', 'deepest', 'hole', '-0.691,', '1-sigma', 'level', '0.073'],
            ['REM', '123', 'parameters', 'refined', 'using', '5', 'restraints'],
            ['REM', 'DSR', 'PUT', 'TOLUENE', 'WITH', 'C1', 'C2', 'C3', 'ON', 'Q1', 'Q2', 'Q3', 'PART', '1', 'OCC', '-21'],
            ['REM', 'DSR', 'REPLACE', 'THF', 'WITH', 'O1', 'C1', 'C2', 'ON', 'O1', 'C1', 'C2'],
            ['REM'], ['REM', 'SADI', 'C1', 'C2', '='], ['REM', 'C1B', '1', '0.31', '0.36', '0.33', '-21.0', '0.03'], ['REM', '2', '1', '0.5', '0.5', '0.5', '11.0', '0.05']]
    for _ in range(rng.choice([0, 0, 1, 2, 3])):
        add(rng.choice(REMS), 'rem')
    nfv = rng.randint(3, 12)     # the occupation codes used below refer to free variables 2 and 3
    fv = [1.0] + [round(rng.uniform(0.1, 0.9), 4) for _ in range(nfv - 1)]
    if nfv > 3 and rng.random() < 0.5:
        k = rng.randint(1, nfv - 1)
        add(['FVAR'] + [fmt_num(x) for x in fv[:k]], 'fvar', nums=fv[:k])
        add(['FVAR'] + [fmt_num(x) for x in fv[k:]], 'fvar', nums=fv[k:])
    else:
        add(['FVAR'] + [fmt_num(x) for x in fv], 'fvar', nums=fv)
    # atoms with running context
    atoms = []
    ctx = {'part': (0, None), 'afix': 0, 'resi': (0, '')}
    rkw = ['SADI', 'DFIX', 'DANG', 'SIMU', 'DELU', 'RIGU', 'ISOR', 'FLAT', 'SAME', 'CHIV', 'EADP', 'EXYZ', 'NCSY', 'HFIX', 'MPLA', 'RTAB', 'CONN', 'ANIS']
    for i, nm in enumerate(names):
        r = rng.random()
        if resi and r < 0.2:
            num = rng.randint(1, 5)
            used = [l['cls'] for l in lines if l['kind'] == 'resi' and l['cls']]
            cls = rng.choice(used) if used and rng.random() < 0.7 else rng.choice(['', 'TOL', 'CCF3', 'thf', 'B12', '3HB'])
            cls = rng.choice([cls, cls.lower(), cls.lower(), cls.upper(), cls.capitalize()])     # classes are not case-sensitive
            if cls and rng.random() < 0.12:
                num = -num          # residue numbers from -999 to 9999 are allowed
            toks = ['RESI'] + ([cls] if cls else []) + [str(num)]
            if cls and rng.random() < 0.4:
                toks = ['RESI', str(num), cls]
            if cls and rng.random() < 0.15:
                toks = toks + [str(rng.choice([7, 30, 1000]))]       # RESI class number alias
            if cls and num > 0 and i % 3 == 1:
                # chain-ID form of the residue number (RESI TOL A:12 [alias]); no random draw, so that the streams stay as they were
                toks = [('AB'[i % 2] + ':' + t) if t == str(num) and k_ == toks.index(str(num)) else t for k_, t in enumerate(toks)]
            add(toks, 'resi', number=num, cls=cls)
            ctx['resi'] = (num, cls)
            # a residue that was copied and not moved yet: an atom line of an earlier residue once more, character by character
            earlier = [l for l in lines if l['kind'] == 'atom' and l['atom']['resinum'] != num and not l['atom']['qpeak']]
            if earlier and rng.random() < 0.3:
                src = rng.choice(earlier)
                dup = dict(src['atom'], resinum=num, resiclass=cls, part=ctx['part'][0], afix=ctx['afix'])
                if ctx['part'][1] is not None:
                    dup['sof'] = ctx['part'][1]
                elif src['atom']['own_sof'] is not None:
                    dup['sof'] = src['atom']['own_sof']
                else:
                    dup['sof'] = 11.0
                if not (src['atom']['ncols'] == 5 and ctx.get('afix') and ctx.get('afix_sof')):
                    atoms.append(dup)
                    add(list(src['tokens']), 'atom', atom=dup)
        elif parts and r < 0.3:
            n = rng.choice([1, 2, -1, 0])
            sof = rng.choice([None, None, 21.0, -21.0, 10.5, 11.0]) if n != 0 else None       # 'PART 1 11': a former disorder part fixed at full occupancy
            add(['PART', str(n)] + ([fmt_num(sof)] if sof is not None else []), 'part', n=n, sof=sof)
            ctx['part'] = (n, sof)
        elif afix and r < 0.42:
            mn = rng.choice([43, 137, 23, 66, 0])
            # AFIX mn d[#] sof[11] U[10.08]: d, sof and U are for the hydrogens SHELXL generates itself; atoms of the file keep their own values
            extra = rng.choice([[], [], ['0.98'], ['0.98', '10.5'], ['1.39', '21.0', '-1.2'], ['0.96', '11.0', '-1.5']]) if mn else []
            add(['AFIX', str(mn)] + extra, 'afix', mn=mn)
            ctx['afix'] = mn
            ctx['afix_sof'] = len(extra) >= 2
        elif r > 0.97:
            add(rng.choice(REMS), 'rem')
        elif restraints and r < 0.6:
            kw = rng.choice(rkw)
            suffix = rng.choice([None, None, None, str(ctx['resi'][0]) if ctx['resi'][0] else None, ctx['resi'][1] if ctx['resi'][1] else None])
            toks, nums, ws = instr_tokens(rng, kw, names, suffix=suffix)
            if ws and suffix is None and kw not in ('RTAB',) and rng.random() < 0.3:
                # atoms addressed with their residue number (NAME_n); the number of the residue in force or 0
                k0 = len(toks) - len(ws)
                ws = [w + '_%d' % rng.choice([0, ctx['resi'][0]]) if w[0].isalpha() and '_' not in w and rng.random() < 0.6 else w for w in ws]
                toks = toks[:k0] + ws
            # explicit zeros are values like any other ('DAMP 0 0', 'ISOR 0 0'): now and then every number is written as 0
            if nums and kw in ZERO_OK and rng.random() < 0.12:
                toks = [toks[0]] + ['0'] * len(nums) + toks[1 + len(nums):]
                nums = [0] * len(nums)
            add(toks, 'instr', kw=kw, nums=nums, words=ws, suffix=suffix)
        el = ''.join(c for c in nm if c.isalpha())[:2]
        el = el if el in els else el[:1]
        sf = els.index(el) + 1 if el in els else 1
        xyz = [round(rng.uniform(-0.5, 1.5), 5) for _ in range(3)]
        if rng.random() < 0.15:      # special and nearly special positions
            xyz[rng.randrange(3)] = rng.choice([0.0, 0.5, 0.25, 1.0, 0.33333, 0.00003, -0.00002, 0.00001, -0.5, 0.0001])
        own_sof = rng.choice([11.0, 11.0, 10.5, 21.0, -21.0, 10.25, 31.0])
        ncols = rng.choice([7, 7, 7, 12, 12, 6, 5])
        if ncols == 5 and ctx.get('afix') and ctx.get('afix_sof'):
            ncols = 7       # an atom without its own occupation code under an AFIX that names one: what applies is not stated by the property
        if ncols == 12:
            u = [round(rng.uniform(0.01, 0.08), 5) for _ in range(3)] + [round(rng.uniform(-0.02, 0.02), 5) for _ in range(3)]
        elif ncols == 7:
            u = [round(rng.uniform(0.01, 0.09), 5)]
        else:
            u = []
        toks = [nm, str(sf)] + ['%.5f' % v for v in xyz]
        if ncols >= 6:
            toks.append('%.5f' % own_sof)
        toks += ['%.5f' % v for v in u]
        exp_sof = own_sof if ncols >= 6 else 11.0
        if ctx['part'][1] is not None:
            exp_sof = ctx['part'][1]
        atoms.append({'name': nm, 'sfac': sf, 'element': els[sf - 1], 'xyz': xyz, 'sof': exp_sof, 'own_sof': own_sof if ncols >= 6 else None,
                      'uvals': (u + [0.0] * 5)[:6] if len(u) != 0 else [0.05, 0, 0, 0, 0, 0], 'ncols': ncols,
                      'part': ctx['part'][0], 'afix': ctx['afix'], 'resinum': ctx['resi'][0], 'resiclass': ctx['resi'][1], 'qpeak': False})
        add(toks, 'atom', atom=atoms[-1])
    close = rng.random() < 0.6
    if close:
        if ctx['afix']:
            add(['AFIX', '0'], 'afix', mn=0)
        if ctx['part'][0]:
            add(['PART', '0'], 'part', n=0, sof=None)
        if ctx['resi'][0]:
            add(['RESI', '0'], 'resi', number=0, cls='')
    hk = rng.choice([1, 1, 2, 11, 13])
    toks, nums, ws = instr_tokens(rng, 'HKLF', names, arity=hk)
    add(toks, 'hklf', kw='HKLF', nums=nums, words=[])
    add(['END'], 'end')
    if with_qpeaks:
        for q in range(rng.randint(0, 3)):
            xyz = [round(rng.uniform(0, 1), 4) for _ in range(3)]
            h = round(rng.uniform(0.2, 2.5), 2)
            atoms.append({'name': 'Q%d' % (q + 1), 'sfac': 1, 'element': els[0], 'xyz': xyz, 'sof': 11.0, 'own_sof': 11.0, 'uvals': [0.05, h, 0, 0, 0, 0],
                          'ncols': 8, 'part': 0, 'afix': 0, 'resinum': 0, 'resiclass': '', 'qpeak': True})
            add(['Q%d' % (q + 1), '1'] + ['%.4f' % v for v in xyz] + ['11.00000', '0.05', '%.2f' % h], 'atom', atom=atoms[-1])
    return {'lines': lines, 'atoms': atoms, 'elements': els, 'unit': unit, 'fvars': fv, 'names': names, 'closed': close, 'cell': cell, 'zerr': zerr, 'latt': latt}


def gen_layout(rng, tokens, kind, style):
    """layout for one logical line; style: 'plain' | 'wild'"""
    if style == 'plain':
        return {}
    if kind in ('titl', 'rem'):       # free text: never wrapped, no comment; the keyword may be written in any case
        lay = {'lower': True} if rng.random() < 0.4 else {}
        if kind == 'rem' and rng.random() < 0.5:
            lay['gap'] = rng.choice([2, 'rand'])       # the remarks SHELXL writes (R1, wR2, GooF, peaks) are read token by token
        return lay
    lay = {}
    n = len(tokens)
    if n > 2 and rng.random() < 0.5 and kind not in ('symm',):
        k = rng.randint(1, min(3, n - 1))
        lay['wraps'] = set(rng.sample(range(1, n), k))
        lay['indent'] = rng.randint(1, 6)
        if rng.random() < 0.15:
            lay['tight'] = True
    lay['gap'] = rng.choice([1, 1, 2, 'rand'])
    if rng.random() < 0.3:
        lay['comment'] = rng.choice(['a comment', 'x = y', 'note! twice', '=', 'C1 1 0 0 0'])
    if rng.random() < 0.3:
        lay['lower'] = rng.choice([True, 'all'])
    if rng.random() < 0.2:
        lay['before'] = rng.choice([[''], ['  indented comment line'], ['', ' x = 1'], ['   ']])
    return lay


def render_file(gf, rng, style='plain', layouts=None, starts=None):
    """text of the file; if starts is a list it receives the physical line index where each logical line begins"""
    out = []
    for i, l in enumerate(gf['lines']):
        lay = layouts[i] if layouts is not None else gen_layout(rng, l['tokens'], l['kind'], style)
        toks = l['tokens']
        if l['kind'] == 'symm':
            lay = dict(lay); lay.pop('wraps', None)
        if l['kind'] == 'sfacx' and not lay.get('wraps'):
            lay = dict(lay); lay['wraps'] = {9}; lay.setdefault('indent', 3)      # 16 tokens do not fit on one line
        phys = render_logical(toks, lay, rng)
        if starts is not None:
            starts.append(len(out) + len(lay.get('before', [])))
        out.extend(phys)
    return '\n'.join(out) + '\n'
