"""Random small crystal structures for the SDM / grow checks (C13, C14): a space-group setting from
gen/spacegroups.py with a metrically compatible cell, 1-3 molecule-like clusters of bonded atoms (some on
or near symmetry elements), hydrogens, PARTs, Q-peaks."""
import math
from fractions import Fraction as F

from gen import spacegroups as sg

SYSTEM = {
    'P1': 'tri', 'P-1': 'tri', 'P21': 'mono', 'C2': 'mono', 'Pc': 'mono', 'P21/c': 'mono', 'P21/n': 'mono', 'C2/c': 'mono',
    'I2/a': 'mono', 'A2/a(B-unique-like)': 'mono', 'B2/b': 'mono-c', 'P212121': 'ortho', 'Pna21': 'ortho', 'Pbca': 'ortho',
    'Pnma': 'ortho', 'Aba2': 'ortho', 'Fdd2': 'ortho', 'Ibca': 'ortho', 'P41': 'tetra', 'P4/n': 'tetra', 'I41/a': 'tetra',
    'P31': 'hex', 'P-3': 'hex', 'R-3': 'hex', 'R3c': 'hex', 'P-31c': 'hex', 'P63/m': 'hex', 'P61': 'hex',
    'P213': 'cubic', 'Pa-3': 'cubic', 'F23': 'cubic',
}
ELEMENTS = ['C', 'N', 'O', 'H', 'Cl', 'S', 'I', 'Cs', 'Br', 'K', 'D']       # D: deuterium, a hydrogen isotope for the bonding rule


def radius(el):
    from shelxfile.misc.elements import get_radius_from_element
    return get_radius_from_element(el)


def gen_cell(rng, system):
    a, b, c = (round(rng.uniform(7.5, 16), 3) for _ in range(3))
    if system == 'tri' and rng.random() < 0.5:
        # very unequal axes: every off-diagonal term of the metric tensor carries weight
        a, b, c = rng.sample([round(rng.uniform(7.5, 9), 3), round(rng.uniform(15, 19), 3), round(rng.uniform(10, 13), 3)], 3)
    if system == 'tri':
        while True:
            al, be, ga = (round(rng.uniform(66, 116), 2) for _ in range(3))
            ca, cb, cg = (math.cos(math.radians(x)) for x in (al, be, ga))
            if 1 + 2 * ca * cb * cg - ca * ca - cb * cb - cg * cg > 0.5:
                break
        return [a, b, c, al, be, ga]
    if system == 'mono':
        return [a, b, c, 90, round(rng.uniform(91, 112), 2), 90]
    if system == 'mono-c':
        return [a, b, c, 90, 90, round(rng.uniform(91, 112), 2)]
    if system == 'ortho':
        return [a, b, c, 90, 90, 90]
    if system == 'tetra':
        return [a, a, c, 90, 90, 90]
    if system == 'hex':
        return [a, a, c, 90, 90, 120]
    return [a, a, a, 90, 90, 90]


def ortho(cell):
    a, b, c, al, be, ga = cell
    ca, cb, cg = (math.cos(math.radians(x)) for x in (al, be, ga))
    sg_ = math.sin(math.radians(ga))
    v = math.sqrt(1 + 2 * ca * cb * cg - ca * ca - cb * cb - cg * cg)
    return [[a, b * cg, c * cb], [0, b * sg_, c * (ca - cb * cg) / sg_], [0, 0, c * v / sg_]]


def inv3(m):
    d = (m[0][0] * (m[1][1] * m[2][2] - m[1][2] * m[2][1]) - m[0][1] * (m[1][0] * m[2][2] - m[1][2] * m[2][0])
         + m[0][2] * (m[1][0] * m[2][1] - m[1][1] * m[2][0]))
    return [[(m[1][1] * m[2][2] - m[1][2] * m[2][1]) / d, (m[0][2] * m[2][1] - m[0][1] * m[2][2]) / d, (m[0][1] * m[1][2] - m[0][2] * m[1][1]) / d],
            [(m[1][2] * m[2][0] - m[1][0] * m[2][2]) / d, (m[0][0] * m[2][2] - m[0][2] * m[2][0]) / d, (m[0][2] * m[1][0] - m[0][0] * m[1][2]) / d],
            [(m[1][0] * m[2][1] - m[1][1] * m[2][0]) / d, (m[0][1] * m[2][0] - m[0][0] * m[2][1]) / d, (m[0][0] * m[1][1] - m[0][1] * m[1][0]) / d]]


def mv(m, v):
    return [sum(m[i][k] * v[k] for k in range(3)) for i in range(3)]


def gen_structure(rng, name=None, natoms=None, force_shared=False, force_mode=None):
    name = name or rng.choice(list(sg.TABLE))
    n, symms = sg.TABLE[name]
    cell = gen_cell(rng, SYSTEM[name])
    M = ortho(cell)
    Mi = inv3(M)
    natoms = natoms or rng.randint(2, 9)
    atoms = []
    nmol = rng.randint(1, 3)
    part = 0
    # with some probability all fragments sit near the same symmetry axis (at different heights along it), so that
    # several fragments need the same operator and lattice translation
    shared = None
    if rng.random() < 0.3 or force_shared:
        ax = rng.randrange(3)
        fixed = [rng.choice([0.0, 0.25, 0.5]) for _ in range(3)]
        shared = (ax, fixed)
        nmol = max(nmol, 2)
    height = rng.uniform(0.05, 0.3)
    while len(atoms) < natoms:
        # a new molecule: seed near a special position or at a general one
        mode = rng.choice(['general', 'general', 'near_centre', 'on_centre', 'near_axis', 'on_quarter', 'on_quarter'])
        if force_mode and not atoms:
            mode = force_mode
        if shared is not None:
            mode = 'shared_axis'
        if mode == 'general':
            seed = [rng.uniform(0.05, 0.95) for _ in range(3)]
        elif mode == 'on_centre':
            seed = [rng.choice([0.0, 0.5]) for _ in range(3)]
        elif mode == 'on_quarter':
            # exact quarters: differences to symmetry equivalents are exactly -1.5, -0.5, 0.5 (the boundary of the wrap into the cell)
            seed = [rng.uniform(0.05, 0.95) for _ in range(3)]
            for ax_ in rng.sample(range(3), rng.randint(1, 2)):
                seed[ax_] = rng.choice([0.25, 0.75, 0.75, 0.5])
        elif mode == 'near_centre':
            d = mv(Mi, [rng.uniform(-0.7, 0.7) for _ in range(3)])
            seed = [rng.choice([0.0, 0.5]) + d[k] for k in range(3)]
        elif mode == 'shared_axis':
            ax, fixed = shared
            seed = list(fixed)
            seed[ax] = height
            height += rng.uniform(0.25, 0.4)
            off = [rng.uniform(-0.45, 0.45) for _ in range(3)]
            off[ax] = 0.0
            d = mv(Mi, off)
            seed = [seed[k] + d[k] for k in range(3)]
        else:
            seed = [rng.choice([0.0, 0.25, 0.5]), rng.uniform(0.1, 0.9), rng.choice([0.0, 0.25, 0.5])]
            d = mv(Mi, [rng.uniform(-0.6, 0.6), 0, rng.uniform(-0.6, 0.6)])
            seed = [seed[k] + d[k] for k in range(3)]
        mol = [seed]
        size = max(1, (natoms - len(atoms)) if nmol <= 1 else rng.randint(1, max(1, (natoms - len(atoms)) // (2 if shared else 1))))
        nmol -= 1
        els = [rng.choice(ELEMENTS) if rng.random() < 0.7 else rng.choice(['I', 'Cs', 'Br', 'K']) for _ in range(size)]
        for j in range(size - 1):
            bi = rng.randrange(len(mol))
            base = mv(M, mol[bi])
            while True:
                v = [rng.gauss(0, 1) for _ in range(3)]
                ln = math.sqrt(sum(x * x for x in v))
                if ln > 0.2:
                    break
            # contact length relative to the bonding limit 1.2 (r1 + r2): mostly bonded, some just beyond
            # (one contact in five is close to the limit, where a small error in the metric decides)
            r = (rng.uniform(0.93, 0.995) if rng.random() < 0.2 else rng.uniform(0.5, 1.1)) * 1.2 * (radius(els[bi]) + radius(els[j + 1]))
            mol.append(mv(Mi, [base[k] + v[k] / ln * r for k in range(3)]))
        for p, el in zip(mol, els):
            if rng.random() < 0.15:
                part = rng.choice([0, 1, 2, -1, 0])
            atoms.append({'el': el, 'xyz': [round(x, 5) for x in p], 'part': part})
    # a shared site: a second atom of another element on exactly the coordinates of an atom (mixed occupancy, refined with EXYZ / EADP), in the
    # same PART or in PART 1 / PART 2
    if rng.random() < 0.2 and atoms:
        src = rng.choice(atoms)
        other = rng.choice([e for e in ELEMENTS if e != src['el']])
        atoms.append({'el': other, 'xyz': list(src['xyz']), 'part': src['part'] if rng.random() < 0.6 else rng.choice([1, 2])})
    # disordered hydrogen atoms: the parent in PART 0 (or in a PART), the hydrogens split over PART 1 / PART 2 (or PART 0)
    if rng.random() < 0.35:
        parents = [a for a in atoms if a['el'] not in ('H', 'D')]
        hyd = rng.choice(['H', 'H', 'D'])
        for par in rng.sample(parents, min(len(parents), rng.randint(1, 2))):
            base = mv(M, par['xyz'])
            for hp in ((1, 2) if par['part'] == 0 else (0,)):
                v = [rng.gauss(0, 1) for _ in range(3)]
                ln = math.sqrt(sum(x * x for x in v)) or 1.0
                r = rng.uniform(0.85, 1.05)
                atoms.append({'el': hyd, 'xyz': [round(x, 5) for x in mv(Mi, [base[k] + v[k] / ln * r for k in range(3)])], 'part': hp})
    for i, a in enumerate(atoms):
        a['name'] = '%s%d' % (a['el'], i + 1)
    qpeaks = [{'name': 'Q%d' % (i + 1), 'xyz': [round(rng.uniform(0, 1), 4) for _ in range(3)]} for i in range(rng.randint(0, 2))]
    return {'name': name, 'latt': n, 'symm': list(symms), 'cell': cell, 'atoms': atoms, 'qpeaks': qpeaks}


def gen_chain(rng):
    """a polymer chain running along a lattice direction of a P1 / P-1 cell: every atom is bonded to the next one and the last one to the
    lattice translate of the first, so that the fragment is bonded to its own images under pure lattice translations (also ones whose
    components cancel, such as [1 -1 0])"""
    name = rng.choice(['P1', 'P-1'])
    n, symms = sg.TABLE[name]
    cell = gen_cell(rng, 'tri')
    M = ortho(cell)
    direction = rng.choice([[1, -1, 0], [1, 0, -1], [0, 1, -1], [1, 0, 0], [0, 1, 0], [1, 1, 0], [-1, 1, 0], [1, -1, 1]])
    dv = mv(M, direction)
    length = math.sqrt(sum(x * x for x in dv))
    k = max(2, int(round(length / 1.45)))
    start = [rng.uniform(0.2, 0.4) for _ in range(3)] if name == 'P1' else [0.25 + rng.uniform(-0.02, 0.02), 0.3, 0.35]
    atoms = []
    for j in range(k):
        p = [start[i] + direction[i] * j / k + rng.uniform(-0.004, 0.004) for i in range(3)]
        atoms.append({'el': rng.choice(['C', 'C', 'N', 'O']), 'xyz': [round(x, 5) for x in p], 'part': 0})
    for i, a in enumerate(atoms):
        a['name'] = '%s%d' % (a['el'], i + 1)
    return {'name': name, 'latt': n, 'symm': list(symms), 'cell': cell, 'atoms': atoms, 'qpeaks': []}


def to_text(st):
    sf = ELEMENTS
    lines = ['TITL %s' % st['name'].replace('/', ''), 'CELL 0.71073 ' + ' '.join('%s' % x for x in st['cell']),
             'ZERR 4 0.001 0.001 0.001 0.01 0.01 0.01', 'LATT %d' % st['latt']]
    lines += ['SYMM ' + s for s in st['symm']]
    lines += ['SFAC ' + ' '.join(sf), 'UNIT ' + ' '.join(['8'] * len(sf)), 'FVAR 1.0 0.6']
    part = 0
    for a in st['atoms']:
        if a['part'] != part:
            part = a['part']
            lines.append('PART %d' % part)
        lines.append('%s %d %.5f %.5f %.5f %s 0.04' % (a['name'], sf.index(a['el']) + 1, a['xyz'][0], a['xyz'][1], a['xyz'][2],
                                                      '11.0' if part == 0 else ('21.0' if part > 0 else '10.5')))
    if part != 0:
        lines.append('PART 0')
    lines += ['HKLF 4', 'END']
    for q in st['qpeaks']:
        lines.append('%s 1 %.4f %.4f %.4f 11.0 0.05 1.5' % (q['name'], *q['xyz']))
    return '\n'.join(lines) + '\n'
