"""Running the implementation on text and extracting the observable model (shared by the text-level checks)."""
import contextlib
import io
import os
import tempfile


def read_text(text, mode='quiet', path=None):
    """returns (status, shx); status 'ok' or the exception class name.  The inner parser's exception is observed by
    wrapping _parse_cards from outside (no source hook): in quiet mode the library swallows it."""
    from shelxfile.shelx.shelx import Shelxfile
    shx = Shelxfile(verbose=(mode == 'verbose'), debug=(mode == 'debug'))
    inner = {}
    orig = shx._parse_cards

    def wrapped():
        try:
            return orig()
        except BaseException as e:
            inner['exc'] = type(e).__name__
            raise
    shx._parse_cards = wrapped
    status = 'ok'
    try:
        with contextlib.redirect_stdout(io.StringIO()):
            if path is None:
                shx.read_string(text)
            else:
                shx.read_file(path)
    except BaseException as e:
        status = 'raised ' + type(e).__name__
    # read_string re-runs __init__, which removes the instance attribute again; keep what was recorded
    return status, inner.get('exc'), shx


def atoms_table(shx):
    out = []
    for a in shx.atoms.all_atoms:
        out.append({'name': a.name, 'sfac': a.sfac_num, 'element': a.element, 'xyz': [a.x, a.y, a.z], 'sof': a.sof,
                    'uvals': list(a.uvals), 'part': a.part.n, 'afix': a.afix.mn if a.afix else 0,
                    'resinum': a.resinum, 'resiclass': a.resiclass, 'qpeak': bool(a.qpeak)})
    return out


def instr_tokens(shx):
    """token lists of the instruction objects in file order (objects only, raw strings are reported as ('raw', text))"""
    from shelxfile.atoms.atom import Atom
    out = []
    for i, x in enumerate(shx._reslist):
        if i in shx.delete_on_write:
            continue
        if isinstance(x, str):
            if x.strip():
                out.append(('raw', x))
        elif isinstance(x, Atom):
            out.append(('atom', x.name))
        else:
            out.append((type(x).__name__, str(x).split()))
    return out


def write_text(shx):
    d = tempfile.mkdtemp(prefix='verif-w-')
    p = os.path.join(d, 'out.res')
    try:
        with contextlib.redirect_stdout(io.StringIO()):
            shx.write_shelx_file(p)
        return open(p).read()
    finally:
        try:
            os.remove(p)
        except OSError:
            pass
        os.rmdir(d)


def close(a, b, tol=1e-9):
    return abs(a - b) <= tol * max(1.0, abs(a), abs(b))
