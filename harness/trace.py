"""Trace translator (Tie A): runs functions imported from /repo on symbolic numbers and records the
expression DAG of every result.  Symbolic values overload arithmetic only.  Truth tests and comparisons
on symbolic data consult a decision script; the tracer re-runs the function once per decision prefix and
assembles the complete if-tree (complete path enumeration of loop-free code; more than MAX_PATHS paths
is a failure).  Anything else (float(), int(), hash-based lookups, indexing with a symbol) raises, so a
kernel that cannot be traced completely is never emitted (fail closed)."""
import math
from fractions import Fraction

MAX_PATHS = 64


class TraceError(Exception):
    pass


class Sym:
    __slots__ = ('op', 'args', 'tr')
    __array_priority__ = 1000

    def __init__(self, tr, op, args):
        self.tr = tr
        self.op = op
        self.args = args

    # -- arithmetic
    def _bin(self, op, other, swap=False):
        o = self.tr.lift(other)
        return self.tr.node(op, (o, self) if swap else (self, o))

    def __add__(self, o): return self._bin('add', o)
    def __radd__(self, o): return self._bin('add', o, True)
    def __sub__(self, o): return self._bin('sub', o)
    def __rsub__(self, o): return self._bin('sub', o, True)
    def __mul__(self, o): return self._bin('mul', o)
    def __rmul__(self, o): return self._bin('mul', o, True)
    def __truediv__(self, o): return self._bin('div', o)
    def __rtruediv__(self, o): return self._bin('div', o, True)
    def __neg__(self): return self.tr.node('neg', (self,))
    def __pos__(self): return self
    def __abs__(self): return self.tr.node('abs', (self,))

    def __pow__(self, e):
        if isinstance(e, Sym) or not (isinstance(e, int) or (isinstance(e, float) and e == int(e))) or not (1 <= int(e) <= 4):
            raise TraceError('unsupported power %r' % (e,))
        r = self
        for _ in range(int(e) - 1):
            r = self.tr.node('mul', (r, self))
        return r

    def __round__(self, n=None):
        # round(x, 9) of a result: rounding is not modelled (recorded as identity, listed in the trusted base)
        self.tr.rounded = True
        return self

    def __mod__(self, o):
        raise TraceError('% on symbolic data')

    # -- comparisons -> decisions
    def _cmp(self, op, other, swap=False):
        o = self.tr.lift(other)
        a, b = (o, self) if swap else (self, o)
        return SymBool(self.tr, op, (a, b))

    def __lt__(self, o): return self._cmp('lt', o)
    def __gt__(self, o): return self._cmp('lt', o, True)
    def __le__(self, o): return self._cmp('le', o)
    def __ge__(self, o): return self._cmp('le', o, True)
    def __eq__(self, o): return self._cmp('eq', o)
    def __ne__(self, o): return SymBool(self.tr, 'ne', (self, self.tr.lift(o)))
    __hash__ = None

    def __bool__(self):
        return bool(SymBool(self.tr, 'ne', (self, self.tr.lift(0))))

    def __float__(self):
        raise TraceError('float() of symbolic data')

    def __int__(self):
        raise TraceError('int() of symbolic data')

    def __index__(self):
        raise TraceError('symbolic data used as index')

    def __repr__(self):
        return 'Sym(%s)' % self.op


class SymBool:
    def __init__(self, tr, op, args):
        self.tr, self.op, self.args = tr, op, args

    def __bool__(self):
        return self.tr.decide(self)


class Tracer:
    def __init__(self):
        self.cache = {}
        self.script = []
        self.pos = 0
        self.taken = []
        self.rounded = False

    def var(self, name):
        return self.node('var', (name,))

    def lift(self, x):
        if isinstance(x, Sym):
            return x
        if isinstance(x, bool):
            raise TraceError('bool mixed with symbolic arithmetic')
        if isinstance(x, int):
            return self.node('const', (Fraction(x),))
        if isinstance(x, float):
            if x != x or x in (float('inf'), float('-inf')):
                raise TraceError('non-finite constant')
            return self.node('const', (Fraction(repr(x)),))
        if isinstance(x, Fraction):
            return self.node('const', (x,))
        raise TraceError('cannot lift %r' % (type(x),))

    def node(self, op, args):
        key = (op,) + tuple(id(a) if isinstance(a, Sym) else a for a in args)
        n = self.cache.get(key)
        if n is None:
            n = Sym(self, op, args)
            self.cache[key] = n
        return n

    def decide(self, sb):
        # the same comparison asked again on this path (Python's `not (a and b)` and `x < y <= z` test an operand twice)
        for sb0, v0 in self.taken:
            if sb0.op == sb.op and len(sb0.args) == len(sb.args) and all(p is q for p, q in zip(sb0.args, sb.args)):
                return v0
        if self.pos < len(self.script):
            v = self.script[self.pos]
        else:
            v = True
            self.script.append(True)
        self.taken.append((sb, v))
        self.pos += 1
        return v

    # math shims ------------------------------------------------------------
    def shim(self, name, real):
        def f(x, *rest):
            if isinstance(x, Sym):
                if rest:
                    raise TraceError('%s with extra arguments' % name)
                return self.node(name, (x,))
            return real(x, *rest)
        f.__name__ = name
        return f


MATH_NAMES = ['cos', 'sin', 'sqrt', 'acos', 'radians', 'degrees', 'floor', 'fabs']


def patched_modules():
    import shelxfile.misc.dsrmath as m1
    import shelxfile.misc.misc as m2
    import shelxfile.atoms.atoms as m3
    import shelxfile.atoms.atom as m4
    import shelxfile.fit.quatfit as m5
    import shelxfile.shelx.cards as m6
    import shelxfile.shelx.sdm as m7
    return [m1, m2, m3, m4, m5, m6, m7]


class patch_math:
    def __init__(self, tr):
        self.tr = tr
        self.saved = []

    def __enter__(self):
        for mod in patched_modules():
            for n in MATH_NAMES:
                if hasattr(mod, n) and getattr(mod, n) is getattr(math, n):
                    self.saved.append((mod, n, getattr(mod, n)))
                    setattr(mod, n, self.tr.shim(n, getattr(math, n)))
            # modules doing "import math"/"import math as m" are handled by shimming a proxy
        return self

    def __exit__(self, *a):
        for mod, n, v in self.saved:
            setattr(mod, n, v)


def flatten_out(x, out, path=''):
    """Collect result components: Sym, numbers, and nested lists/tuples/Array/Matrix."""
    if isinstance(x, Sym) or isinstance(x, (int, float, Fraction)) and not isinstance(x, bool):
        out.append((path, x))
    elif hasattr(x, 'values') and not isinstance(x, dict):
        flatten_out(x.values, out, path)
    elif isinstance(x, (list, tuple)):
        for i, e in enumerate(x):
            flatten_out(e, out, path + '_%d' % i)
    else:
        raise TraceError('unsupported result type %r' % (type(x),))


def trace(fn, argnames):
    """fn(tracer, *symbols) -> result.  Returns (tree, tracer-of-last-run) where tree is either
    ('leaf', [(path, Sym)...]) or ('if', SymBool, tree_true, tree_false), all runs sharing one node cache."""
    master = Tracer()
    paths = {}
    scripts = [[]]
    done = 0
    while scripts:
        script = scripts.pop()
        master.script = list(script)
        master.pos = 0
        master.taken = []
        with patch_math(master):
            syms = [master.var(n) for n in argnames]
            res = fn(master, *syms)
        out = []
        flatten_out(res, out)
        out = [(p, master.lift(v)) for p, v in out]
        taken = list(master.taken)
        key = tuple(v for _, v in taken)
        paths[key] = (taken, out)
        done += 1
        if done > MAX_PATHS:
            raise TraceError('more than %d paths' % MAX_PATHS)
        # schedule the unexplored siblings of decisions made beyond the given script
        for i in range(len(script), len(taken)):
            alt = [v for _, v in taken[:i]] + [False]
            scripts.append(alt)

    def build(prefix):
        if prefix in paths and len(paths[prefix][0]) == len(prefix):
            return ('leaf', paths[prefix][1])
        # find the decision made after this prefix
        for key, (taken, out) in paths.items():
            if key[:len(prefix)] == prefix and len(key) > len(prefix):
                sb = taken[len(prefix)][0]
                return ('if', sb, build(prefix + (True,)), build(prefix + (False,)))
        raise TraceError('incomplete path tree at %r' % (prefix,))
    return build(()), master


# ----------------------------------------------------------------------------- evaluation / emission

def eval_node(n, env, memo, fl):
    """Evaluate a DAG node with Python floats (fl=True: exactly the operations the source performs)."""
    k = id(n)
    if k in memo:
        return memo[k]
    op = n.op
    if op == 'var':
        v = env[n.args[0]]
    elif op == 'const':
        c = n.args[0]
        v = (float(c) if c.denominator != 1 else int(c)) if fl else c
    else:
        a = [eval_node(x, env, memo, fl) for x in n.args]
        if op == 'add': v = a[0] + a[1]
        elif op == 'sub': v = a[0] - a[1]
        elif op == 'mul': v = a[0] * a[1]
        elif op == 'div': v = a[0] / a[1]
        elif op == 'neg': v = -a[0]
        elif op == 'abs': v = abs(a[0])
        else:
            v = getattr(math, op)(a[0])
    memo[k] = v
    return v


def eval_tree(tree, env):
    memo = {}
    while tree[0] == 'if':
        sb = tree[1]
        a = eval_node(sb.args[0], env, memo, True)
        b = eval_node(sb.args[1], env, memo, True)
        c = {'lt': a < b, 'le': a <= b, 'eq': a == b, 'ne': a != b}[sb.op]
        tree = tree[2] if c else tree[3]
    return [eval_node(s, env, memo, True) for _, s in tree[1]]


OPS2 = {'add': 'o_add', 'sub': 'o_sub', 'mul': 'o_mul', 'div': 'o_div'}
OPS1 = {'neg': 'o_neg', 'abs': 'o_abs', 'sqrt': 'o_sqrt', 'cos': 'o_cos', 'sin': 'o_sin', 'acos': 'o_acos',
        'radians': 'o_rad', 'degrees': 'o_deg', 'floor': 'o_floor', 'fabs': 'o_abs'}


class Emitter:
    """Prints DAG nodes as Gallina over the Ops record (coq/Base/Num.v)."""

    def __init__(self):
        self.lines = []
        self.names = {}

    def ref(self, n):
        k = id(n)
        if k in self.names:
            return self.names[k]
        if n.op == 'var':
            s = n.args[0]
        elif n.op == 'const':
            c = n.args[0]
            s = '(o_const O (%s) %d)' % (c.numerator, c.denominator)
            s = s.replace('(-', '(-').replace('O (', 'O (')
            s = '(o_const O (%d)%%Z %d%%positive)' % (c.numerator, c.denominator)
        else:
            a = [self.ref(x) for x in n.args]
            if n.op in OPS2:
                e = '%s O %s %s' % (OPS2[n.op], a[0], a[1])
            elif n.op in OPS1:
                e = '%s O %s' % (OPS1[n.op], a[0])
            else:
                raise TraceError('cannot emit ' + n.op)
            s = 'n%d' % len(self.names)
            self.lines.append('let %s := %s in' % (s, e))
        self.names[k] = s
        return s

    def cond(self, sb):
        a, b = self.ref(sb.args[0]), self.ref(sb.args[1])
        return {'lt': 'o_ltb O %s %s' % (a, b), 'le': 'negb (o_ltb O %s %s)' % (b, a),
                'eq': 'o_eqb O %s %s' % (a, b), 'ne': 'negb (o_eqb O %s %s)' % (a, b)}[sb.op]


def emit_component(name, argnames, tree, idx):
    """One Gallina definition for output component idx of the traced tree."""
    def go(t, em, indent):
        if t[0] == 'leaf':
            start = len(em.lines)
            r = em.ref(t[1][idx][1])
            body = ''.join(indent + l + '\n' for l in em.lines[start:])
            del em.lines[start:]
            return body + indent + r
        start = len(em.lines)
        c = em.cond(t[1])
        pre = ''.join(indent + l + '\n' for l in em.lines[start:])
        del em.lines[start:]
        saved = dict(em.names)
        t1 = go(t[2], em, indent + '  ')
        em.names = dict(saved)
        t2 = go(t[3], em, indent + '  ')
        em.names = saved
        return pre + indent + 'if %s then\n%s\n%selse\n%s' % (c, t1, indent, t2)
    em = Emitter()
    body = go(tree, em, '  ')
    args = ' '.join(argnames)
    return 'Definition %s {T : Type} (O : Ops T) (%s : T) : T :=\n%s.\n' % (name, args, body)


def n_outputs(tree):
    while tree[0] == 'if':
        tree = tree[2]
    return len(tree[1])


def out_paths(tree):
    while tree[0] == 'if':
        tree = tree[2]
    return [p for p, _ in tree[1]]
