#!/bin/bash
# usage: mut.sh verify|run|archive WT PID NAME [detected note]
# verify: tests pass + demo fails with patch, demo passes without (in the scratch worktree WT)
# run:    applies the patch to /repo, runs ./check PID (or CHECK=other id), reverts
cmd=$1; W=$2; P=$3; M=$4; D=$W/mutants/$M
case $cmd in
 verify)
  cd $W && git checkout -q -- . &&
  echo "clean demo: $(PYTHONPATH=$W /venv/bin/python $D/demo.py >/dev/null 2>&1; echo $?)"
  git apply $D/patch.diff || { echo "PATCH DOES NOT APPLY"; exit 1; }
  echo "mutant tests: $(PYTHONPATH=$W /venv/bin/python -m pytest -q -p no:cacheprovider 2>&1 | tail -1)"
  echo "mutant demo: $(PYTHONPATH=$W /venv/bin/python $D/demo.py >/dev/null 2>&1; echo $?)"
  git checkout -q -- . ;;
 run)
  cd /repo && git apply $D/patch.diff || { echo "PATCH DOES NOT APPLY TO /repo"; exit 1; }
  cd /verif && timeout 1500 ./check ${CHECK:-$P} 2>&1 | grep -E "VIOLATION|BROKEN|^OK|^FAIL" | head -6
  cd /repo && git checkout -q -- . && git status --short ;;
 archive)
  /venv/bin/python - "$W" "$P" "$M" "$5" "$6" <<'PY'
import json, os, shutil, sys
w, pid, m, detected, note = sys.argv[1:6]
src = '%s/mutants/%s' % (w, m)
dst = '/verif/seeded/%s_%s' % (pid, m)
os.makedirs(dst, exist_ok=True)
for f in ('patch.diff', 'demo.py'):
    shutil.copy(os.path.join(src, f), os.path.join(dst, f))
meta = json.load(open(os.path.join(src, 'meta.json')))
meta['property'] = pid
meta['confirmed_by_me'] = {
  'scratch_worktree': 'patch applied in a scratch worktree: existing suite 252 passed; demo.py exit 1 with the change, exit 0 without',
  'check_run': 'git -C /repo apply patch.diff; ./check %s; git -C /repo checkout -- .' % pid,
  'detected': detected, 'note': note}
json.dump(meta, open(os.path.join(dst, 'meta.json'), 'w'), indent=1)
PY
  ;;
esac
