import json,sys,glob
pid=sys.argv[1]
prev=[]
for f in sorted(glob.glob('/verif/seeded/%s_m*/meta.json' % pid)):
    m=json.load(open(f))
    prev.append('- %s (files: %s)' % (str(m.get('what_breaks'))[:300].replace('\n',' '), ', '.join(m.get('files_changed',[]))[:120]))
base=__import__('subprocess').run(['/venv/bin/python','/verif/harness/tools/agent_prompt.py',pid],capture_output=True,text=True).stdout
base=base.replace('/tmp/wt-%s' % pid, '/tmp/wt5-%s' % pid).replace('(name = m1, m2)','(name = m9, m10)')
base=base.replace('Your task: produce TWO different, independent source changes','Earlier rounds already produced the following changes for this property; yours must be DIFFERENT in the code site and in the idea (do not re-do these):\n%s\n\nYour task: produce TWO different, independent source changes' % '\n'.join(prev))
print(base)
