import json,sys
pid=sys.argv[1]
for l in open('/verif/properties.jsonl'):
    d=json.loads(l)
    if d['id']==pid:
        print(f"""You are helping to evaluate a verification tool by producing realistic *seeded defects* ("mutants") for a Python library.

The library is dkratzert/ShelXFile (a pure-Python parser/editor/writer for SHELXL crystallographic .res/.ins files). You have your own scratch git worktree of it at /tmp/wt-{pid} (work ONLY there; never touch /repo or /verif; do not read anything under /verif).

The semantic property under study ({pid}: {d['title']}):

\"\"\"{d['statement']}\"\"\"

Your task: produce TWO different, independent source changes to the library (each as its own patch against the clean worktree HEAD) that each BREAK this property while (a) the code still imports/compiles and (b) the existing test suite still passes completely. Run the existing suite with:
   cd /tmp/wt-{pid} && PYTHONPATH=/tmp/wt-{pid} /venv/bin/python -m pytest -q -p no:cacheprovider
(252 tests pass on the clean tree; they must all still pass with each change applied).

Prefer changes that need something specific to manifest — an unusual but valid input, a particular multi-step sequence of operations, a specific numeric regime (e.g. a non-orthogonal cell, a particular free-variable number, a particular atom arrangement), or two cooperating code sites that each look fine alone — rather than changes that ordinary use would expose at once. Make them look like plausible programmer mistakes or well-meant "optimisations"/refactorings, not sabotage. Keep each change small (a few lines).

For each change deliver, in the directory /tmp/wt-{pid}/mutants/<name>/ (name = m1, m2):
  - patch.diff  : `git diff` of the change against clean HEAD (must apply with `git apply` from the worktree root)
  - demo.py     : a small stand-alone program (run as `PYTHONPATH=<tree> /venv/bin/python demo.py`) that exits 0 on the clean tree and exits non-zero (assertion failure) with the change applied, demonstrating the property violation on a concrete input; it must only use the library's public API and plain Python
  - meta.json   : {{"property": "{pid}", "what_breaks": "...", "needs_to_manifest": "...", "files_changed": [...], "commands_run": [...]}}
After writing each patch, restore the worktree to clean HEAD (`git checkout -- .`) so that the two patches are independent, and verify for each patch: apply -> full test suite passes -> demo fails; unapply -> demo passes.

Finish with a short report listing, per mutant, the file/function changed, the idea, and confirmation of the four checks (tests pass with change, demo fails with change, demo passes without, patch applies cleanly). Do not commit anything.""")
