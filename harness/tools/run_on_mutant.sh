#!/bin/bash
# usage: run_on_mutant.sh PID patchfile  -> applies patch to /repo, runs ./check PID, reverts
P=$1; F=$2
cd /repo && git apply $F || { echo "PATCH DOES NOT APPLY TO /repo"; exit 1; }
cd /verif && timeout 1500 ./check $P 2>&1 | grep -E "VIOLATION|BROKEN|^OK|^FAIL|KNOWN" | head -8
cd /repo && git checkout -q -- . && git status --short
