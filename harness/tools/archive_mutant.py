import json, os, shutil, sys
pid, m, detected, note = sys.argv[1], sys.argv[2], sys.argv[3], sys.argv[4]
src = '/tmp/wt-%s/mutants/%s' % (pid, m)
dst = '/verif/seeded/%s_%s' % (pid, m)
os.makedirs(dst, exist_ok=True)
for f in ('patch.diff', 'demo.py'):
    shutil.copy(os.path.join(src, f), os.path.join(dst, f))
meta = json.load(open(os.path.join(src, 'meta.json')))
meta['property'] = pid
meta['confirmed_by_me'] = {
  'scratch_worktree': 'patch applied in a scratch worktree: existing suite 252 passed; demo.py exit 1 with the change, exit 0 without',
  'check_run': 'git -C /repo apply patch.diff; ./check %s; git -C /repo checkout -- .' % pid,
  'detected': detected, 'note': note}
json.dump(meta, open(os.path.join(dst, 'meta.json'), 'w'), indent=1)
