import json, sys, re
pid = sys.argv[1]
prop = [json.loads(l) for l in open('/verif/properties.jsonl') if json.loads(l)['id'] == pid][0]
known = []
for l in open('/verif/known_findings.txt'):
    m = re.match(r'(fixed|known): property=(\S+) (\S+) (.*)', l)
    if m and m.group(2) == pid:
        known.append('- (%s) %s' % ('already repaired' if m.group(1) == 'fixed' else 'known, recorded', m.group(4)[:260]))
print("""You are auditing a Python library for violations of ONE stated semantic property.

The library is dkratzert/ShelXFile (a pure-Python parser/editor/writer for SHELXL crystallographic .res/.ins files). You have your own scratch git worktree of it at /tmp/wt7-%(pid)s (work ONLY there; never touch /repo or /verif; do not read anything under /verif). Run code with  PYTHONPATH=/tmp/wt7-%(pid)s /venv/bin/python  (no network, nothing can be installed, there is no real SHELXL binary).

The property (%(pid)s: %(title)s):

\"\"\"%(statement)s\"\"\"

It is meant to hold over: %(quant)s

Your task: find behaviour of the CURRENT, unmodified code that VIOLATES this property, on inputs INSIDE the domain it quantifies over (e.g. syntactically valid SHELXL files as the SHELXL manual defines them; do not report behaviour on malformed input unless the property speaks about malformed input). Read the code the property is about, think about which valid inputs, operation sequences or numeric regimes the existing unit tests do not reach, and TRY them: every finding must come with a minimal stand-alone reproduction that you actually ran (a few lines of Python using the public API, the input text inline) and the observed versus the expected result. Quality over quantity: a finding that needs an invalid file, or that only differs in formatting the property does not care about, is not wanted. Do not modify the library.

These were found before and need not be reported again:
%(known)s

Finish with a report: for each finding (at most six, most convincing first) give (1) the input / call sequence, (2) what the library does, (3) what the property demands, (4) the code location of the cause, (5) how sure you are that the input is inside the property's domain. If you find nothing, say so and list what you tried.""" % dict(pid=pid, title=prop['title'], statement=prop['statement'], quant=prop['quantifier']['text'], known='\n'.join(known) or '- (none)'))
