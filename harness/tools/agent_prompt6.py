import json,sys,glob
pid=sys.argv[1]
prev=[]
for f in sorted(glob.glob('/verif/seeded/%s_m*/meta.json' % pid)):
    m=json.load(open(f))
    prev.append('- %s (files: %s)' % (str(m.get('what_breaks'))[:260].replace('\n',' '), ', '.join(m.get('files_changed',[]))[:120]))
base=__import__('subprocess').run(['/venv/bin/python','/verif/harness/tools/agent_prompt.py',pid],capture_output=True,text=True).stdout
base=base.replace('/tmp/wt-%s' % pid, '/tmp/wt6-%s' % pid).replace('(name = m1, m2)','(name = m11, m12)')
base=base.replace('Your task: produce TWO different, independent source changes','Earlier rounds already produced the following changes for this property; yours must be DIFFERENT in the code site and in the idea (do not re-do these):\n%s\n\nThe input of your demo must lie INSIDE the domain the property quantifies over (e.g. a syntactically valid SHELXL file where the property speaks of valid files): a change that only shows on invalid input does not count.\n\nYour task: produce TWO different, independent source changes' % '\n'.join(prev))
base=base.replace('Do not commit anything.', 'If, while reading the code, you see a behaviour of the CLEAN tree that already violates the property as stated, describe it at the end of your report with a minimal reproducing input (this is welcome, but does not replace the two changes). Do not commit anything.')
print(base)
