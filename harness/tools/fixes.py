import subprocess, sys
def patch(path, a, b, count=1):
    s = open(path).read()
    assert s.count(a) >= 1, (path, a[:60])
    s = s.replace(a, b, count)
    open(path, 'w').write(s)
def commit(msg):
    r = subprocess.run('/venv/bin/python -m pytest -q -p no:cacheprovider 2>&1 | tail -1', shell=True, capture_output=True, text=True).stdout
    assert '252 passed' in r, r
    subprocess.check_call(['git', 'commit', '-qam', msg])
    print('committed:', msg.split('\n')[0])
C='shelxfile/shelx/cards.py'; S='shelxfile/shelx/shelx.py'; A='shelxfile/atoms/atom.py'

# (a) bare L.S./CGLS
patch(C, """        try:
            self._cycles = int(p[0])
        except (IndexError, NameError, ValueError):
            raise ParseNumError(debug=self.shx.debug, verbose=self.shx.verbose)
""", """        # nls is zero if it is not given (L.S. nls[0] nrf[0] nextra[0]):
        if len(p) > 0:
            self._cycles = int(p[0])
""")
commit("""fix: L.S. and CGLS without a number of cycles are accepted

'L.S.' alone (nls[0]) raised an AttributeError inside the error handler
(self.shx does not exist) and ended the parsing of the file.""")

# (b-d) bare EXTI LIST TEMP
patch(S, "                self.list = int(spline[1])\n", "                if len(spline) > 1:\n                    self.list = int(spline[1])\n")
patch(S, "                self.exti = float(spline[1])\n", "                if len(spline) > 1:\n                    self.exti = float(spline[1])\n")
patch(S, "                self.temp = float(spline[1].split('(')[0])\n                self.temp_in_kelvin = self.temp + 273.15\n",
         "                if len(spline) > 1:\n                    self.temp = float(spline[1].split('(')[0])\n                self.temp_in_kelvin = self.temp + 273.15\n")
commit("""fix: EXTI, LIST and TEMP without parameters do not end the parsing

All three have documented defaults (EXTI x[0], LIST m[#], TEMP T[20]) but
spline[1] was read unconditionally, so the IndexError stopped the parser
at this line.""")

# (e) MORE bare
patch(C, "        self.m = 1\n        p, _ = self._parse_line(spline, intnums=True)\n        self.m = p[0]\n",
         "        self.m = 1\n        p, _ = self._parse_line(spline, intnums=True)\n        if len(p) > 0:\n            self.m = p[0]\n")
commit("""fix: MORE without parameter uses the default m[1]""")

# (f) LATT bare
patch(C, """        try:
            self.N = int(p[0])
        except ValueError:
            self.N = -1
""", """        # LATT N[1]
        self.N = 1
        if len(p) > 0:
            try:
                self.N = int(p[0])
            except ValueError:
                self.N = -1
""")
commit("""fix: LATT without parameter uses the default N[1]""")

# (h) ANSC
patch(S, "                    self.ansc = [float(x) for x in spline[:1]]\n", "                    self.ansc = [float(x) for x in spline[1:]]\n")
commit("""fix: ANSC reads its six coefficients

The slice spline[:1] tried to convert the keyword itself, float('ANSC'),
so every file with an ANSC instruction was only read up to that line.""")

# (i) HFIX float U and d
patch(C, "        self.params, self.atoms = self._parse_line(spline, intnums=True)\n\n    def __repr__(self):\n        return f\"HFIX",
         "        self.params, self.atoms = self._parse_line(spline)\n        if self.params:\n            # mn is an integer number, U and d are not:\n            self.params[0] = int(self.params[0])\n\n    def __repr__(self):\n        return f\"HFIX")
commit("""fix: HFIX accepts non-integer U and d values

All numbers of 'HFIX mn U[#] d[#] atomnames' were converted with int(),
so e.g. 'HFIX 43 -1.2 C1' raised ValueError and ended the parsing.""")

# (j) HKLF positions
patch(C, """        if len(p) > 10:
            self.matrix = p[3:11]
        if len(p) > 11:
            self.sm = p[12]
        if len(p) > 12:
            self.m = p[13]
""", """        if len(p) > 10:
            self.matrix = p[2:11]
        if len(p) > 11:
            self.sm = p[11]
        if len(p) > 12:
            self.m = p[12]
""")
commit("""fix: HKLF reads the matrix, sm and m from the right positions

With N S r11...r33 sm m the matrix is p[2:11], sm is p[11] and m is
p[12]. The old indices dropped r11, and an HKLF line with 12 or 13
numbers raised IndexError.""")

# (k) FRAG with fewer than seven numbers
patch(C, """        params, _ = self._parse_line(spline)
        self.code = params[0]
        self.cell = params[1:7]
""", """        params, _ = self._parse_line(spline)
        # FRAG code[17] a[1] b[1] c[1] α[90] β[90] γ[90]
        defaults = [17, 1.0, 1.0, 1.0, 90.0, 90.0, 90.0]
        params = params + defaults[len(params):]
        self.code = params[0]
        self.cell = params[1:7]
""")
patch(S, "                if len(spline) == 8:\n                    self.frag = self._assign_card(FRAG(self, spline), line_num)\n",
         "                self.frag = self._assign_card(FRAG(self, spline), line_num)\n")
commit("""fix: FRAG with omitted cell parameters opens a fragment

A FRAG object was only created for exactly seven numbers, so that e.g.
'FRAG 17' followed by FEND ran into the (broken) order check and the
rest of the file was lost.""")

# (n) NameError paths
s = open(S).read()
s = s.replace("debug=shx.debug, verbose=shx.verbose", "debug=self.debug, verbose=self.verbose")
s = s.replace("raise ParseNumError(debug=self.shx.debug, verbose=self.shx.verbose)", "raise ParseNumError(debug=self.debug, verbose=self.verbose)")
open(S, 'w').write(s)
commit("""fix: order checks raise the intended Parse*Error instead of NameError

Several error paths of _parse_cards() referred to an undefined name
'shx' (and self.shx), so a wrong instruction order surfaced as NameError.""")

# (m) RESI bare
patch(C, """        if len(spline) < 2 and (self.shx.debug or self.shx.verbose):
            print('*** Wrong RESI definition found! Check your RESI instructions ***')
            raise ParseParamError(debug=self.shx.debug, verbose=self.shx.verbose)
""", "")
commit("""fix: RESI without parameters is read the same way in all modes

'RESI' alone (class[ ] number[0]) switches back to residue 0. It raised
ParseParamError only in verbose and debug mode.""")

# (o) is_atom on non-atom lines
patch(S, """        return any(float(y) > 4.0 for y in spline[2:5])
""", """        try:
            return any(float(y) > 4.0 for y in spline[2:5])
        except ValueError:
            # Not a number, this can not be an atom:
            return True
""")
commit("""fix: is_atom() does not raise for lines that are neither instruction nor atom

A line with five or more words whose third to fifth word are not numbers
raised ValueError inside the atom test and ended the parsing.""")
