#!/bin/bash
# usage: verify_mutant.sh PID name   -> confirms tests pass + demo fails with patch, demo passes without (in scratch worktree)
P=$1; M=$2; W=/tmp/wt-$P; D=$W/mutants/$M
cd $W && git checkout -q -- . && 
echo "clean demo: $(PYTHONPATH=$W /venv/bin/python $D/demo.py >/dev/null 2>&1; echo $?)"
git apply $D/patch.diff || { echo "PATCH DOES NOT APPLY"; exit 1; }
echo "mutant tests: $(PYTHONPATH=$W /venv/bin/python -m pytest -q -p no:cacheprovider 2>&1 | tail -1)"
echo "mutant demo: $(PYTHONPATH=$W /venv/bin/python $D/demo.py >/dev/null 2>&1; echo $?)"
git checkout -q -- .
