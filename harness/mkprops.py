"""Development-time helper: writes coq/Props/<PID>.v from lemma statements proved in coq/Proofs/*.v.
usage: mkprops.py PID header-file-or-'-' Proofs/File.v:lemma[=NewName] ...
The statement text is copied verbatim so the Props file shows the full statement; each theorem is
closed by `exact` and followed by Print Assumptions."""
import re, sys

def lemma_header(path, name):
    s = open(path).read()
    m = re.search(r'(?ms)^(?:Lemma|Theorem|Example|Corollary)\s+%s\b(.*?)\nProof\.' % re.escape(name), s)
    if not m:
        raise SystemExit('lemma %s not found in %s' % (name, path))
    return m.group(1).rstrip()

def split_binders(hdr):
    depth = 0
    for i, ch in enumerate(hdr):
        if ch in '([{': depth += 1
        elif ch in ')]}': depth -= 1
        elif ch == ':' and depth == 0 and hdr[i:i+2] != ':=':
            return hdr[:i], hdr[i+1:]
    raise SystemExit('no colon in header')

def binder_names(b):
    names = []
    # (x y : T) groups and bare names
    for grp in re.findall(r'\(([^()]*?):[^()]*\)|\{([^{}]*?):[^{}]*\}|([A-Za-z_][A-Za-z0-9_\']*)', b):
        g = grp[0] or grp[1] or grp[2]
        names += g.split()
    return names

def main():
    pid = sys.argv[1]
    header = sys.argv[2]
    out = []
    out.append(open(header).read() if header != '-' else '')
    for spec in sys.argv[3:]:
        path, nm = spec.split(':')
        new = None
        if '=' in nm:
            nm, new = nm.split('=')
        new = new or '%s_%s' % (pid, nm)
        hdr = lemma_header('/verif/coq/' + path, nm)
        b, stmt = split_binders(hdr)
        names = binder_names(b)
        stmt = stmt.rstrip()
        assert stmt.endswith('.'), stmt[-20:]
        out.append('Theorem %s%s :%s\nProof. exact (%s %s). Qed.\nPrint Assumptions %s.\n' % (
            new, (' ' + b.strip()) if b.strip() else '', stmt, nm, ' '.join(names), new))
    open('/verif/coq/Props/%s.v' % pid, 'w').write('\n'.join(out))

main()
