"""Development-time helper: writes coq/Props/<PID>.v from lemma statements proved in coq/Proofs/*.v.
usage: mkprops.py PID header-file-or-'-' Proofs/File.v:lemma[=NewName] ...
The statement text is copied verbatim so the Props file shows the full statement; each theorem is
closed by `exact` and followed by Print Assumptions."""
import re, sys

def lemma_header(path, name):
    s = open(path).read()
    m = re.search(r'(?ms)^(?:Lemma|Theorem|Example|Corollary)\s+%s\b(.*?)\nProof\.' % re.escape(name), s)
    if not m:
        raise SystemExit('lemma %s not found in %s' % (name, path))
    return m.group(1).rstrip()

def split_binders(hdr):
    depth = 0
    for i, ch in enumerate(hdr):
        if ch in '([{': depth += 1
        elif ch in ')]}': depth -= 1
        elif ch == ':' and depth == 0 and hdr[i:i+2] != ':=':
            return hdr[:i], hdr[i+1:]
    raise SystemExit('no colon in header')

def binder_names(b):
    """names bound by a binder list such as  x (a b : T) (m : metric (T:=R)) {n : nat}"""
    names = []
    i, n = 0, len(b)
    while i < n:
        ch = b[i]
        if ch in '({':
            depth, j = 1, i + 1
            while j < n and depth:
                if b[j] in '({[':
                    depth += 1
                elif b[j] in ')}]':
                    depth -= 1
                j += 1
            inner = b[i + 1:j - 1]
            # names before the first ':' at depth 0 of the group
            d, cut = 0, len(inner)
            for k, c in enumerate(inner):
                if c in '({[':
                    d += 1
                elif c in ')}]':
                    d -= 1
                elif c == ':' and d == 0 and inner[k:k + 2] != ':=':
                    cut = k
                    break
            names += inner[:cut].split()
            i = j
        elif ch.isspace():
            i += 1
        else:
            j = i
            while j < n and not b[j].isspace() and b[j] not in '({':
                j += 1
            names.append(b[i:j])
            i = j
    return names


def main():
    pid = sys.argv[1]
    header = sys.argv[2]
    out = []
    out.append(open(header).read() if header != '-' else '')
    for spec in sys.argv[3:]:
        path, nm = spec.split(':')
        new = None
        if '=' in nm:
            nm, new = nm.split('=')
        new = new or '%s_%s' % (pid, nm)
        hdr = lemma_header('/verif/coq/' + path, nm)
        b, stmt = split_binders(hdr)
        names = binder_names(b)
        stmt = stmt.rstrip()
        assert stmt.endswith('.'), stmt[-20:]
        out.append('Theorem %s%s :%s\nProof. exact (%s %s). Qed.\nPrint Assumptions %s.\n' % (
            new, (' ' + b.strip()) if b.strip() else '', stmt, nm, ' '.join(names), new))
    open('/verif/coq/Props/%s.v' % pid, 'w').write('\n'.join(out))

main()
