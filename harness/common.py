"""Shared machinery of the /verif checks: Coq build, Print Assumptions audit, evaluation of
model terms inside Coq (cases.v + vm_compute), evidence, violations, known findings."""
import fcntl
import hashlib
import json
import os
import random
import re
import shutil
import subprocess
import sys
import tempfile
import time
from fractions import Fraction

VERIF = os.environ.get('VERIF_ROOT') or os.path.dirname(os.path.dirname(os.path.abspath(__file__)))   # /verif, or a snapshot of it (vp run)
COQ = os.path.join(VERIF, 'coq')
REPO = os.environ.get('VERIF_REPO') or '/repo'
NS = 'SX'
NCPU = 16

STD_AXIOMS_ALLOWED = {
    # axioms declared by Coq's own standard library (Reals, FunctionalExtensionality, Classical)
    'ClassicalDedekindReals.sig_forall_dec',
    'ClassicalDedekindReals.sig_not_dec',
    'FunctionalExtensionality.functional_extensionality_dep',
    'functional_extensionality_dep',
    'sig_forall_dec', 'sig_not_dec',
    'Classical_Prop.classic', 'classic',
}

FORBIDDEN_RE = re.compile(
    r'\b(Admitted|admit|Axiom|Axioms|Parameter|Parameters|Conjecture|Conjectures|Admit Obligations|'
    r'Unset Guard Checking|Unset Positivity Checking|Unset Universe Checking|bypass_check|'
    r'type-in-type|impredicative-set)\b')


class Ctx:
    def __init__(self, pid, tier, seed):
        self.pid = pid
        self.tier = tier
        self.seed = seed
        self.rng = random.Random(seed * 1000003 + int(hashlib.sha1(pid.encode()).hexdigest()[:8], 16))
        self.t0 = time.time()
        self.violations = []      # dicts
        self.known_hits = []      # strings
        self.broken = []          # broken obligations / correspondences (strings)
        self.cov = {'samples': [], 'evaluations': 0, 'distinct_nontrivial': 0}
        self.obligations = 0
        self.discharged = 0
        self.trusted = []
        self.assumptions = []
        self.notes = {}
        self.scratch = tempfile.mkdtemp(prefix='verif-%s-' % pid)

    def cleanup(self):
        shutil.rmtree(self.scratch, ignore_errors=True)

    def thorough(self):
        return self.tier == 'thorough'


# --------------------------------------------------------------------------- Coq build

def _run(cmd, cwd=None, timeout=3600, env=None, inp=None):
    p = subprocess.run(cmd, cwd=cwd, stdout=subprocess.PIPE, stderr=subprocess.STDOUT, timeout=timeout,
                       env=env, input=inp, text=True, shell=isinstance(cmd, str))
    return p.returncode, p.stdout


def coq_files():
    out = []
    for d, _, fs in os.walk(COQ):
        for f in fs:
            if f.endswith('.v'):
                out.append(os.path.join(d, f))
    return sorted(out)


def coq_audit_sources():
    """No Admitted / admit / Axiom / Parameter / ... anywhere in the development (comments stripped)."""
    bad = []
    for f in coq_files():
        txt = open(f).read()
        txt = strip_coq_comments(txt)
        for m in FORBIDDEN_RE.finditer(txt):
            bad.append('%s: %s' % (os.path.relpath(f, COQ), m.group(0)))
        # Variable / Hypothesis outside a section
        depth = 0
        for line in txt.split('\n'):
            s = line.strip()
            if re.match(r'(Section|Module)\b', s) and not re.match(r'Module\s+(Import|Export)\b', s):
                if s.startswith('Section'):
                    depth += 1
            if re.match(r'End\b', s) and depth > 0:
                depth -= 1 if re.match(r'End\s+\w+\.', s) else 0
            if depth == 0 and re.match(r'(Variable|Variables|Hypothesis|Hypotheses|Context)\b', s):
                bad.append('%s: %s outside a section' % (os.path.relpath(f, COQ), s.split()[0]))
    return bad


def strip_coq_comments(txt):
    out = []
    depth = 0
    i = 0
    instr = False
    while i < len(txt):
        if depth == 0 and txt[i] == '"':
            instr = not instr
            out.append(txt[i]); i += 1; continue
        if not instr and txt.startswith('(*', i):
            depth += 1; i += 2; continue
        if not instr and depth > 0 and txt.startswith('*)', i):
            depth -= 1; i += 2; continue
        if depth == 0:
            out.append(txt[i])
        elif txt[i] == '\n':
            out.append('\n')
        i += 1
    return ''.join(out)


def coq_build(targets=None, timeout=3000):
    """Full .vo build (make) of /verif/coq under a lock.  Returns (ok, log)."""
    lock = open(os.path.join(COQ, '.build.lock'), 'w')
    fcntl.flock(lock, fcntl.LOCK_EX)
    try:
        mk = os.path.join(COQ, 'Makefile')
        proj = os.path.join(COQ, '_CoqProject')
        write_coqproject()
        if (not os.path.exists(mk)) or os.path.getmtime(mk) < os.path.getmtime(proj):
            rc, out = _run(['coq_makefile', '-f', '_CoqProject', '-o', 'Makefile'], cwd=COQ)
            if rc != 0:
                return False, out
        cmd = ['timeout', str(timeout), 'make', '-j%d' % NCPU, '-k']
        if targets:
            cmd += targets
        rc, out = _run(cmd, cwd=COQ, timeout=timeout + 60)
        return rc == 0, out
    finally:
        fcntl.flock(lock, fcntl.LOCK_UN)
        lock.close()


def write_coqproject():
    files = [os.path.relpath(f, COQ) for f in coq_files()]
    files = [f for f in files if not f.startswith('scratch')]
    txt = '-Q . %s\n' % NS + '\n'.join(files) + '\n'
    p = os.path.join(COQ, '_CoqProject')
    if not os.path.exists(p) or open(p).read() != txt:
        open(p, 'w').write(txt)


def vo_targets(vfiles):
    return [f[:-2] + '.vo' for f in vfiles]


def coqc_file(path, timeout=600):
    """Compile one file outside the Makefile (scratch files); returns (rc, output)."""
    return _run(['timeout', str(timeout), 'coqc', '-Q', COQ, NS, path], cwd=os.path.dirname(path), timeout=timeout + 30)


def props_assumptions(pid, ctx):
    """Re-compile Props/<pid>.v capturing Print Assumptions; returns dict theorem -> list of axioms
    (empty list = closed under the global context), or None when compilation fails."""
    src = os.path.join(COQ, 'Props', pid + '.v')
    tmp = os.path.join(ctx.scratch, 'PA_%s.v' % pid)
    shutil.copy(src, tmp)
    rc, out = coqc_file(tmp)
    if rc != 0:
        return None, out
    # theorem names in order
    txt = strip_coq_comments(open(src).read())
    names = re.findall(r'^\s*(?:Theorem|Lemma|Corollary)\s+([A-Za-z0-9_\']+)', txt, re.M)
    pa = re.findall(r'Print Assumptions\s+([A-Za-z0-9_\'.]+)\s*\.', txt)
    blocks = re.split(r'(?m)^(?=Closed under the global context|Axioms:|Section Variables:)', out)
    blocks = [b for b in blocks if b.strip()]
    res = {}
    for name, blk in zip(pa, blocks):
        if blk.startswith('Closed under'):
            res[name] = []
        else:
            ax = re.findall(r'^([A-Za-z_][A-Za-z0-9_.\']*)\s*:', blk, re.M)
            res[name] = [a for a in ax if a not in ('Axioms', 'Section Variables')]
    return {'theorems': names, 'printed': pa, 'assumptions': res}, out


def check_obligations(ctx, theorems, extra_targets=None):
    """Step 2 of a check run: build, audit, assumptions.  theorems = names that must exist in Props/<pid>.v."""
    pid = ctx.pid
    bad = coq_audit_sources()
    if bad:
        ctx.broken.append('source audit: ' + '; '.join(bad[:5]))
    ok, log = coq_build(targets=['Props/%s.vo' % pid] + list(extra_targets or []))
    ctx.notes['build_ok'] = ok
    ctx.obligations += len(theorems)
    if not ok:
        ctx.notes['build_errors'] = log[-3000:]
        ctx.broken.append('proof obligations of Props/%s.v no longer check: %s' % (pid, first_error(log)))
        return False
    info, out = props_assumptions(pid, ctx)
    if info is None:
        ctx.broken.append('Props/%s.v does not compile: %s' % (pid, first_error(out if out else log)))
        return False
    missing = [t for t in theorems if t not in info['theorems']]
    notprinted = [t for t in theorems if t not in info['assumptions']]
    for t in missing:
        ctx.broken.append('theorem %s missing from Props/%s.v' % (t, pid))
    for t in theorems:
        if t in missing:
            continue
        if t in notprinted:
            ctx.broken.append('no Print Assumptions for %s' % t)
            continue
        ax = info['assumptions'][t]
        foreign = [a for a in ax if a not in STD_AXIOMS_ALLOWED]
        if foreign:
            ctx.broken.append('theorem %s depends on non-standard axioms %s' % (t, foreign))
            continue
        ctx.discharged += 1
        ctx.trusted.append('%s: %s' % (t, 'closed under the global context' if not ax else 'axioms ' + ', '.join(ax)))
    return not ctx.broken


def first_error(log):
    m = re.search(r'(File "[^"]+", line \d+[^\n]*\n(?:[^\n]*\n){0,6}?Error:[^\n]*(?:\n[^\n]+){0,4})', log or '')
    return (m.group(1) if m else (log or '')[-600:]).strip()


# --------------------------------------------------------------------------- evaluating the model in Coq

def coq_eval(ctx, name, imports, defs, terms, timeout=900):
    """Write a scratch file evaluating each term with vm_compute; returns list of raw result strings
    (text between '= ' and the final ': type')."""
    path = os.path.join(ctx.scratch, name + '.v')
    with open(path, 'w') as f:
        f.write(imports + '\n' + defs + '\n')
        for t in terms:
            f.write('Eval vm_compute in (%s).\n' % t)
    rc, out = coqc_file(path, timeout)
    if rc != 0:
        raise RuntimeError('coq evaluation failed (%s): %s' % (name, first_error(out)))
    parts = re.split(r'(?m)^\s*= ', out)[1:]
    res = []
    for p in parts:
        # drop trailing ": type"
        idx = p.rfind('\n     : ')
        res.append(p[:idx] if idx >= 0 else p)
    if len(res) != len(terms):
        raise RuntimeError('coq evaluation: %d results for %d terms' % (len(res), len(terms)))
    return res


def coq_eval_sharded(ctx, name, imports, defs_of_shard, shards, timeout=900):
    """Run several scratch files in parallel.  shards: list of (defs, terms).  Returns list of result lists."""
    import concurrent.futures as cf
    def one(i):
        d, t = shards[i]
        return coq_eval(ctx, '%s_%d' % (name, i), imports, d, t, timeout)
    with cf.ThreadPoolExecutor(max_workers=NCPU) as ex:
        return list(ex.map(one, range(len(shards))))


def parse_nat_list(s):
    return [int(x) for x in re.findall(r'\d+', s.replace('%nat', '').replace('%N', '').replace('%Z', ''))]


def parse_bool(s):
    return s.strip().startswith('true')


# Coq literal printers -------------------------------------------------------

def cq(x):
    """Fraction / int / float -> Coq Q literal (exact)."""
    if isinstance(x, float):
        x = Fraction(x)
    x = Fraction(x)
    return '(%s # %d)' % (cz(x.numerator), x.denominator)


def cz(n):
    return '(%d)%%Z' % n if n < 0 else '%d%%Z' % n


def cstr(s):
    assert all(32 <= ord(c) < 127 for c in s), repr(s)
    return '"%s"%%string' % s.replace('"', '""')


def clist(xs):
    return '[' + '; '.join(xs) + ']'


def cbool(b):
    return 'true' if b else 'false'


def copt(x):
    return 'None' if x is None else '(Some %s)' % x


# --------------------------------------------------------------------------- known findings

def load_known():
    known, fixed = [], []
    p = os.path.join(VERIF, 'known_findings.txt')
    if os.path.exists(p):
        for line in open(p):
            line = line.strip()
            if line.startswith('known:'):
                d = dict(re.findall(r'(\w+)=(\S+)', line))
                d['text'] = line
                known.append(d)
            elif line.startswith('fixed:'):
                fixed.append(line)
    return known, fixed


# --------------------------------------------------------------------------- verdict and evidence

def add_violation(ctx, what, case, expected=None, observed=None, cls=None, no_input=False):
    """Record a violation; cls = known-finding class it falls in (or None)."""
    ctx.violations.append({'what': what, 'case': case, 'expected': expected, 'observed': observed,
                           'class': cls, 'no_input': no_input})


def finish(ctx, level_text=None):
    known, _ = load_known()
    known_classes = {k.get('class'): k for k in known if k.get('property') == ctx.pid}
    printed = set()
    real = []
    for v in ctx.violations:
        if v['class'] and v['class'] in known_classes and not v['no_input']:
            k = known_classes[v['class']]
            if v['class'] not in printed:
                printed.add(v['class'])
                print('KNOWN-FINDING: property=%s %s' % (ctx.pid, k['text'].split(' ', 2)[2] if k['text'].count(' ') >= 2 else k['text']))
            ctx.known_hits.append(v['class'])
        else:
            real.append(v)
    # broken obligations without a failing input
    rc = 0
    os.makedirs(os.path.join(VERIF, 'replay'), exist_ok=True)
    if real:
        v = real[0]
        h = hashlib.sha1(json.dumps(v, sort_keys=True, default=str).encode()).hexdigest()[:10]
        path = os.path.join(VERIF, 'replay', '%s-%s.json' % (ctx.pid, h))
        json.dump({'property': ctx.pid, 'violation': v, 'all': real[:20], 'broken': ctx.broken, 'broken_cases': ctx.notes.get('broken_cases', [])[:5],
                   'replay_cmd': './check %s --replay %s' % (ctx.pid, path)}, open(path, 'w'), indent=1, default=str)
        print('VIOLATION property=%s replay=%s' % (ctx.pid, path))
        rc = 1
    elif ctx.broken:
        h = hashlib.sha1(json.dumps(ctx.broken).encode()).hexdigest()[:10]
        path = os.path.join(VERIF, 'replay', '%s-%s.json' % (ctx.pid, h))
        json.dump({'property': ctx.pid, 'no_failing_input_found': True, 'broken': ctx.broken, 'notes': ctx.notes},
                  open(path, 'w'), indent=1, default=str)
        for b in ctx.broken[:10]:
            print('BROKEN: %s' % b)
        print('VIOLATION property=%s replay=%s no-failing-input-found' % (ctx.pid, path))
        rc = 1
    cov = dict(ctx.cov)
    cov.update({
        'obligations': max(ctx.obligations, 1),
        'discharged': ctx.discharged if not ctx.broken else min(ctx.discharged, max(ctx.obligations - 1, 0)),
        'checker_cmd': 'cd /verif/coq && coq_makefile -f _CoqProject -o Makefile && make  (coqc 8.16.1, full .vo build); Props/%s.v re-compiled for Print Assumptions' % ctx.pid,
        'trusted_base': ctx.trusted + ['Coq 8.16.1 kernel + VM (vm_compute); no native_compute'],
        'samples': cov.get('samples', [])[:6] or ['(none)'],
        'broken': ctx.broken,
        'known_findings_printed': sorted(printed),
    })
    if cov['discharged'] < 1:
        cov['discharged'] = 0
    cov.update(ctx.notes.get('coverage_extra', {}))
    ev = {'property_id': ctx.pid, 'tier': ctx.tier, 'seed': ctx.seed, 'level': 'proof', 'coverage': cov,
          'assumptions': ctx.assumptions, 'wall_s': round(time.time() - ctx.t0, 2),
          'violations': len(real) + (1 if (ctx.broken and not real) else 0)}
    os.makedirs(os.path.join(VERIF, 'evidence'), exist_ok=True)
    json.dump(ev, open(os.path.join(VERIF, 'evidence', ctx.pid + '.json'), 'w'), indent=1, default=str)
    ctx.cleanup()
    return rc


def sample(ctx, x, limit=6):
    if len(ctx.cov['samples']) < limit:
        ctx.cov['samples'].append(x)
