"""Regenerates /verif/MANIFEST.json from the table below (run by hand after adding a check)."""
import json, os
CHECKS = {
 'C09': dict(text='Six kernel-checked theorems over exact rationals (Props/C09.v): the modelled Atom.occupancy equals the SHELXL rule for every code 10m+p and every free-variable list that defines fv(|m|), complements sum to p, the two sum formulae are the sums the property states. The model (Model/Occ.v) is tied to /repo by evaluating it inside Coq on the same occupation codes and files the implementation was run on (grid of m x p x FVAR lists, random files).',
             note='Trusted: Coq kernel/VM; hand-written model of split_fvar_and_parameter/occupancy/sum formulae validated by correspondence only on the sampled grid; float rounding and round(.,8) not modelled (tolerance 3e-8).',
             technique='Coq proof over Q (lia/lra/ring) + model-vs-implementation correspondence evaluated by vm_compute', design='6 C09'),
}
NOT_YET = {}
def main():
    props = [json.loads(l) for l in open('/verif/properties.jsonl')]
    checks, na = [], []
    for p in props:
        pid = p['id']
        if pid in CHECKS:
            c = CHECKS[pid]
            checks.append({
                'property_id': pid,
                'quick_cmd': './check %s --tier quick' % pid,
                'thorough_cmd': './check %s --tier thorough' % pid,
                'evidence_file': '/verif/evidence/%s.json' % pid,
                'replay_cmd_template': './check %s --replay {path}' % pid,
                'engine': 'coq-proof',
                'level_claimed': {'category': 'proof', 'text': c['text'], 'design_ref': 'DESIGN.md section ' + c['design']},
                'level_note': c['note'],
                'technique': c['technique'],
            })
        else:
            na.append({'property_id': pid, 'reason': NOT_YET.get(pid, 'model and theorems not built yet in this development (planned in DESIGN.md section 6); not claimed until the check exists')})
    m = {
        'version': 1,
        'setup_cmd': 'cd /verif && ./setup.sh',
        'hooks': {'guard': 'SHELXFILE_VERIF', 'enable': 'no source hooks are needed; checks import /repo directly (PYTHONPATH=/repo) and export SHELXFILE_VERIF=1 for uniformity',
                  'baseline_off_cmd': 'cd /repo && /venv/bin/python -m pytest -ra -q -p no:cacheprovider --timeout=900 --continue-on-collection-errors',
                  'source_commits': [], 'add_only': True},
        'engines': [{'name': 'coq-proof', 'path': '/verif/coq', 'serves_properties': [c['property_id'] for c in checks],
                     'kind_free_text': 'Coq 8.16.1 development (models, specs, theorems) + Python correspondence harness evaluating the models with vm_compute against /repo'}],
        'checks': checks,
        'not_applicable': na,
        'notes': 'See DESIGN.md. known_findings.txt lists fixed and known defects.',
    }
    json.dump(m, open('/verif/MANIFEST.json', 'w'), indent=1)
main()
