"""Regenerates /verif/MANIFEST.json from the table below (run by hand after adding a check)."""
import json, os
CHECKS = {
 'C09': dict(text='Six kernel-checked theorems over exact rationals (Props/C09.v): the modelled Atom.occupancy equals the SHELXL rule for every code 10m+p and every free-variable list that defines fv(|m|), complements sum to p, the two sum formulae are the sums the property states. The model (Model/Occ.v) is tied to /repo by evaluating it inside Coq on the same occupation codes and files the implementation was run on (grid of m x p x FVAR lists, random files).',
             note='Trusted: Coq kernel/VM; hand-written model of split_fvar_and_parameter/occupancy/sum formulae validated by correspondence only on the sampled grid; float rounding and round(.,8) not modelled (tolerance 3e-8).',
             technique='Coq proof over Q (lia/lra/ring) + model-vs-implementation correspondence evaluated by vm_compute', design='6 C09'),
 'C12': dict(text='Eighteen kernel-checked theorems over the reals (Props/C12.v) about the expression DAGs the trace translator records from /repo on every run (OrthogonalMatrix, its inverse and metric matrix, the four volume routines, frac_to_cart/cart_to_frac, atomic_distance, SDM.vector_length, reciprocal lengths, Ucif->Ustar->Ucart, Ueq): M^T M = G, conventional setting, det M = V, inverse, agreement of the independent conversions, metric distance, Ucart = M N U N^T M^T, Ueq = tr/3, and positive definiteness of U <=> of Ucart. A source change that alters a coefficient, index or sign breaks a proof; the public API is additionally run against a metric-tensor reference to produce the failing input.',
             note='Trusted: Coq kernel; Reals axioms (sig_forall_dec, sig_not_dec, functional_extensionality_dep, classic); the trace translator (validated each run in floats and in exact Q); real-number semantics of float arithmetic; is_npd decision (QR iteration) checked by correspondence only.',
             technique='Coq proof over R (field/nsatz/ring) about kernels regenerated from source by a trace translator', design='6 C12'),
 'C15': dict(text='Sixteen theorems (Props/C15.v): the traced Atoms.torsion_angle / Atoms.angle / atomic_distance kernels equal the textbook definitions (torsion sign = sign of the full triple product), and for those: invariance under any rigid motion, sign inversion in the mirror image, reversal ABCD=DCBA, range [-180,180] with planar arrangements non-negative, angle symmetric and in [0,180], the clockwise textbook configuration = +90; find_atoms_around as a filter. The API is run against atan2 references, metamorphic relations and brute force.',
             note='Trusted: Coq kernel; Reals axioms; trace translator; rounding (round(x,9)) not modelled; find_atoms_around is a hand-written filter model checked against the implementation by brute force.',
             technique='Coq proof over R about traced kernels (Gram-matrix invariance, Lagrange identities)', design='6 C15'),
 'C20': dict(text='Fifteen theorems (Props/C20.v) about the traced quatfit kernels: q2mat of a unit quaternion is a proper rotation; Horn identity t.(Q(q)s) = q^T N q for the form the code builds; additivity of the accumulation loop (n = 2, 3 traced); residual identity for any number of points; a maximiser of the form minimises the RMSD over all unit quaternions; exact copies give zero deviation; an orthogonal eigen-decomposition with largest eigenvalue last certifies the maximiser; fit_fragment places fitted atoms on their targets for any fragment position. Jacobi convergence is not proved: its certificate is checked per sample.',
             note='Trusted: Coq kernel; Reals axioms; trace translator; Jacobi convergence (certificate checked numerically per sample); Euler-Rodrigues surjectivity not proved (optimality over unit quaternions); the n-pair loop modelled as a fold of the traced one-pair form.',
             technique='Coq proof over R (ring identities on traced kernels, induction over the point list) + per-sample eigen certificate', design='6 C20'),
 'C10': dict(text='Eight theorems closed under the global context (Props/C10.v).  The central one is universally quantified over the grammar: every well-formed component (signed x/y/z terms in any order, one fractional or decimal translation numeral of arbitrary digits anywhere among them, optional leading plus), in every decoration with blanks and lower case, is parsed by the character-level model of SymmetryElement to exactly the rotation row and translation it denotes; printing a component and parsing it back is the identity; equality holds for whole lattice translations, implies integer difference within 1e-6, and is exact on the 1/24 grid. The model is tied to /repo by running it inside Coq on every component of a bounded grammar, on printed operators and on equality tests.',
             note='Trusted: Coq kernel/VM; hand model Model/Symm.v (float()/eval() on the numeral grammar, str methods on ASCII) validated by correspondence on the enumerated grammar; float rounding not modelled.',
             technique='Coq proof by induction over item lists and characters (partition lemmas, step invariant) + vm_compute correspondence', design='6 C10'),
 'C11': dict(text='Seven theorems closed under the global context (Props/C11.v) about the model of LATT decoding and SymmCards as repaired: every listed operator is one of the expected (generator x centring x inversion) operators, every expected operator is present modulo lattice translations, no two listed operators agree modulo lattice translations, and with distinct generators the count is (1+#SYMM) x centring multiplicity x (2 if centrosymmetric), for every LATT code and every SYMM list. The model is compared in order with Shelxfile.symmcards on 31 tabulated space groups in four spellings and random generator sets; closure is checked per sample in exact rationals.',
             note='Trusted: Coq kernel/VM; hand model Model/Latt.v validated by correspondence; closure under composition not proved (input property).',
             technique='Coq proof (fold with duplicate suppression: soundness, coverage, NoDup, permutation count) + vm_compute correspondence', design='6 C11'),
 'C13': dict(text='Eleven theorems over the reals (Props/C13.v) about the model of SDM.calc_sdm: range of the wrap; the reported distance is the least biased wrapped length over the qualifying operators and the reported operator realises it (induction over the operator list); the bonded label is exactly the library rule; minimum image: below half the smallest interplanar spacing the component-wise wrap returns the nearest lattice translate (Cauchy-Schwarz), and a wrapped vector shorter than half the shortest lattice vector is the shortest translate (triangle inequality); the length formula is the kernel re-traced from SDM.vector_length. The same model, instantiated with primitive floats, is executed inside Coq on the implementation\'s doubles (items, molecule numbers) for every generated structure; the implementation is also compared with brute force over operators x translations and a union-find.',
             note='Trusted: Coq kernel; Reals axioms; primitive floats in the mirrored execution only; hand model Model/Sdm.v validated by correspondence; molecule numbering not proved (union-find reference per sample). Known finding: long contacts beyond half the interplanar spacing in oblique cells.',
             technique='Coq proof over R (fold invariant, Cauchy-Schwarz/triangle inequality) + float-mirrored execution of the same model in vm_compute', design='6 C13'),
 'C14': dict(text='Four theorems over the reals (Props/C14.v) about the model of collect_needed_symmetry and packer: every atom grow() appends is S a + k for an operator S of the list, an original non-Q-peak atom a of the same PART and an integral translation k, taken from a bonded SDM item of a numbered fragment; needed-symmetry entries carry integral shifts; no appended atom lies within 0.2 A of an earlier atom of the same non-negative PART (fold invariants). The float instance of the same model is executed inside Coq against SDM.packer; completeness and bondedness of the added images are checked by brute force per sample.',
             note='Trusted: Coq kernel; Reals axioms; hand model validated by float-mirrored correspondence; completeness (every directly bonded image present) checked by brute force over operators x [-2,2]^3, not proved.',
             technique='Coq proof over R (fold invariants over the needed-symmetry and packer loops) + float-mirrored execution in vm_compute', design='6 C14'),
}
NOT_YET = {}
def main():
    props = [json.loads(l) for l in open('/verif/properties.jsonl')]
    checks, na = [], []
    for p in props:
        pid = p['id']
        if pid in CHECKS:
            c = CHECKS[pid]
            checks.append({
                'property_id': pid,
                'quick_cmd': './check %s --tier quick' % pid,
                'thorough_cmd': './check %s --tier thorough' % pid,
                'evidence_file': '/verif/evidence/%s.json' % pid,
                'replay_cmd_template': './check %s --replay {path}' % pid,
                'engine': 'coq-proof',
                'level_claimed': {'category': 'proof', 'text': c['text'], 'design_ref': 'DESIGN.md section ' + c['design']},
                'level_note': c['note'],
                'technique': c['technique'],
            })
        else:
            na.append({'property_id': pid, 'reason': NOT_YET.get(pid, 'model and theorems not built yet in this development (planned in DESIGN.md section 6); not claimed until the check exists')})
    m = {
        'version': 1,
        'setup_cmd': 'cd /verif && ./setup.sh',
        'hooks': {'guard': 'SHELXFILE_VERIF', 'enable': 'no source hooks are needed; checks import /repo directly (PYTHONPATH=/repo) and export SHELXFILE_VERIF=1 for uniformity',
                  'baseline_off_cmd': 'cd /repo && /venv/bin/python -m pytest -ra -q -p no:cacheprovider --timeout=900 --continue-on-collection-errors',
                  'source_commits': [], 'add_only': True},
        'engines': [{'name': 'coq-proof', 'path': '/verif/coq', 'serves_properties': [c['property_id'] for c in checks],
                     'kind_free_text': 'Coq 8.16.1 development (models, specs, theorems) + Python correspondence harness evaluating the models with vm_compute against /repo'}],
        'checks': checks,
        'not_applicable': na,
        'notes': 'See DESIGN.md. known_findings.txt lists fixed and known defects.',
    }
    json.dump(m, open('/verif/MANIFEST.json', 'w'), indent=1)
main()
