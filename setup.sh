#!/bin/bash
# Builds the Coq development from files on disk (offline).  Full .vo build.
set -e
cd "$(dirname "$0")"
R="$(pwd)"
export PYTHONPATH="${VERIF_REPO:-/repo}":$R/harness PYTHONHASHSEED=0 PYTHONDONTWRITEBYTECODE=1
exec /venv/bin/python -u harness/check.py setup
